#!/usr/bin/env python3
"""Bridge between the Go harness and the repository's Python MCAP library (C16).

usage: interop.py read  <spec.json> <out.json>   spec: {"repo": "/repo", "files": [path, ...]}
       interop.py write <spec.json> <out.json>   spec: {"repo": "/repo", "jobs": [{"path":..., "options":{...}, "profile":..., "library":..., "ops":[...]}]}
All byte strings travel as hex.
"""
import json
import sys
import traceback


def setup(repo):
    sys.path.insert(0, repo + "/python/mcap")


def hx(b):
    return bytes(b).hex()


def schema_d(s):
    if s is None:
        return None
    return {"id": s.id, "name": s.name, "encoding": s.encoding, "data": hx(s.data)}


def channel_d(c):
    return {"id": c.id, "schema_id": c.schema_id, "topic": c.topic, "message_encoding": c.message_encoding,
            "metadata": dict(c.metadata)}


def message_d(m):
    return {"channel_id": m.channel_id, "sequence": m.sequence, "log_time": str(m.log_time),
            "publish_time": str(m.publish_time), "data": hx(m.data)}


def stats_d(st):
    if st is None:
        return None
    return {"message_count": str(st.message_count), "schema_count": st.schema_count, "channel_count": st.channel_count,
            "attachment_count": st.attachment_count, "metadata_count": st.metadata_count, "chunk_count": st.chunk_count,
            "message_start_time": str(st.message_start_time), "message_end_time": str(st.message_end_time),
            "channel_message_counts": {str(k): str(v) for k, v in st.channel_message_counts.items()}}


def dump_with(make):
    """make() returns a fresh reader; every pass uses its own reader (streaming readers are single-use)."""
    out = {}
    try:
        out["header"] = (lambda h: {"profile": h.profile, "library": h.library})(make().get_header())
        out["messages_file_order"] = [[schema_d(s), channel_d(c), message_d(m)]
                                      for s, c, m in make().iter_messages(log_time_order=False)]
        out["messages_log_time"] = [[str(m.log_time), m.sequence, m.channel_id]
                                    for s, c, m in make().iter_messages(log_time_order=True)]
        out["attachments"] = [{"log_time": str(a.log_time), "create_time": str(a.create_time), "name": a.name,
                               "media_type": a.media_type, "data": hx(a.data)} for a in make().iter_attachments()]
        out["metadata"] = [{"name": m.name, "metadata": dict(m.metadata)} for m in make().iter_metadata()]
        summary = make().get_summary()
        if summary is None:
            out["summary"] = None
        else:
            out["summary"] = {
                "statistics": stats_d(summary.statistics),
                "schemas": {str(k): schema_d(v) for k, v in summary.schemas.items()},
                "channels": {str(k): channel_d(v) for k, v in summary.channels.items()},
                "chunk_indexes": len(summary.chunk_indexes),
                "attachment_indexes": len(summary.attachment_indexes),
                "metadata_indexes": len(summary.metadata_indexes),
            }
        out["error"] = None
    except Exception as e:  # noqa: BLE001 - every failure is an observation for the Go side
        out["error"] = "%s: %s" % (type(e).__name__, e)
        out["trace"] = traceback.format_exc()[-600:]
    return out


def do_read(spec):
    from mcap.reader import NonSeekingReader, SeekingReader
    results = []
    for path in spec["files"]:
        def stream():
            return NonSeekingReader(open(path, "rb"), validate_crcs=True)

        def seeking():
            return SeekingReader(open(path, "rb"), validate_crcs=True)
        # one SeekingReader instance reused for every query, in the order time-ordered read first, file-order
        # read second: a reader's answers must not depend on what it was asked before
        shared = []

        def reused():
            if not shared:
                shared.append(SeekingReader(open(path, "rb"), validate_crcs=True))
                try:
                    for _ in shared[0].iter_messages(log_time_order=True):
                        pass
                    for _ in shared[0].iter_messages(log_time_order=True, reverse=True):
                        pass
                except Exception:  # noqa: BLE001 - reported by the dump below
                    pass
            return shared[0]
        results.append({"file": path, "stream": dump_with(stream), "seeking": dump_with(seeking), "seeking_reused": dump_with(reused)})
    return results


def do_write(spec):
    from mcap.writer import CompressionType, IndexType, Writer
    results = []
    for job in spec["jobs"]:
        res = {"path": job["path"], "error": None, "schema_ids": [], "channel_ids": []}
        try:
            o = job["options"]
            idx = IndexType.NONE
            for name in o.get("index_types", []):
                idx |= getattr(IndexType, name)
            with open(job["path"], "wb") as f:
                w = Writer(f, chunk_size=o["chunk_size"], compression=CompressionType.NONE, index_types=idx,
                           repeat_channels=o["repeat_channels"], repeat_schemas=o["repeat_schemas"],
                           use_chunking=o["use_chunking"], use_statistics=o["use_statistics"],
                           use_summary_offsets=o["use_summary_offsets"], enable_crcs=o["enable_crcs"],
                           enable_data_crcs=o["enable_data_crcs"])
                w.start(profile=job["profile"], library=job["library"])
                for op in job["ops"]:
                    k = op["kind"]
                    if k == "schema":
                        res["schema_ids"].append(w.register_schema(op["name"], op["encoding"], bytes.fromhex(op["data"])))
                    elif k == "channel":
                        sid = 0 if op["schema_ref"] < 0 else res["schema_ids"][op["schema_ref"]]
                        res["channel_ids"].append(w.register_channel(op["topic"], op["message_encoding"], sid, dict(op["metadata"])))
                    elif k == "message":
                        w.add_message(res["channel_ids"][op["channel_ref"]], int(op["log_time"]), bytes.fromhex(op["data"]),
                                      int(op["publish_time"]), op["sequence"])
                    elif k == "attachment":
                        w.add_attachment(int(op["create_time"]), int(op["log_time"]), op["name"], op["media_type"], bytes.fromhex(op["data"]))
                    elif k == "metadata":
                        w.add_metadata(op["name"], dict(op["metadata"]))
                w.finish()
        except Exception as e:  # noqa: BLE001
            res["error"] = "%s: %s" % (type(e).__name__, e)
            res["trace"] = traceback.format_exc()[-600:]
        results.append(res)
    return results


def main():
    mode, spec_path, out_path = sys.argv[1], sys.argv[2], sys.argv[3]
    spec = json.load(open(spec_path))
    setup(spec["repo"])
    results = do_read(spec) if mode == "read" else do_write(spec)
    json.dump(results, open(out_path, "w"))


if __name__ == "__main__":
    main()
