// Package gen produces seeded workloads (sequences of writer calls) and writer configurations.
package gen

import (
	"fmt"
	"math"
	"math/rand"
	"sort"
	"strings"

	"verifharness/refmcap"
)

// Workload is a legal sequence of writer calls: header, then schema/channel/message/attachment/metadata
// items in call order, then close. Item maps are in the insertion order the caller would use.
type Workload struct {
	Header refmcap.Header
	Ops    []refmcap.Item
	// Probes are WriteMessage calls on a channel id that is never registered, issued before the op with
	// index Before (len(Ops) = before Close). The writer must refuse them; they are not part of the
	// recorded content, so nothing in the file or its statistics may show them.
	Probes []Probe
}

type Probe struct {
	Before int
	Msg    refmcap.Message
}

// Config mirrors mcap.WriterOptions in a serialisable form.
type Config struct {
	Chunked     bool
	ChunkSize   int64
	Compression string // "", "zstd", "lz4", "custom"
	Level       int    // 0..3
	IncludeCRC  bool

	SkipMessageIndexing      bool
	SkipStatistics           bool
	SkipRepeatedSchemas      bool
	SkipRepeatedChannelInfos bool
	SkipAttachmentIndex      bool
	SkipMetadataIndex        bool
	SkipChunkIndex           bool
	SkipSummaryOffsets       bool
	OverrideLibrary          bool
	SkipMagic                bool

	// CustomShadow: with the caller-supplied compressor, WriterOptions.Compression is also set to this
	// built-in format; the documented rule is that the supplied compressor takes precedence.
	CustomShadow string
	// AttReader selects how attachment data is handed over: 0 bytes.Reader (has WriteTo), 1 a plain
	// reader that returns its last bytes together with io.EOF, 2 one byte per Read, 3 seven bytes per Read.
	AttReader int
}

func (c Config) String() string {
	var f []string
	if c.Chunked {
		f = append(f, fmt.Sprintf("chunked(%d,%q,l%d)", c.ChunkSize, c.Compression, c.Level))
	} else {
		f = append(f, "unchunked")
	}
	if c.IncludeCRC {
		f = append(f, "crc")
	}
	for _, x := range []struct {
		b bool
		n string
	}{{c.SkipMessageIndexing, "-mx"}, {c.SkipStatistics, "-st"}, {c.SkipRepeatedSchemas, "-rsh"}, {c.SkipRepeatedChannelInfos, "-rch"},
		{c.SkipAttachmentIndex, "-ax"}, {c.SkipMetadataIndex, "-mdx"}, {c.SkipChunkIndex, "-chx"}, {c.SkipSummaryOffsets, "-sum"},
		{c.OverrideLibrary, "ovlib"}, {c.SkipMagic, "nomagic"}} {
		if x.b {
			f = append(f, x.n)
		}
	}
	if c.CustomShadow != "" {
		f = append(f, "shadow="+c.CustomShadow)
	}
	if c.AttReader != 0 {
		f = append(f, fmt.Sprintf("attreader%d", c.AttReader))
	}
	return strings.Join(f, ",")
}

// Flags returns the ten Skip*/Override flags as a bit mask (bit i = i-th flag in declaration order).
func (c Config) Flags() int {
	bs := []bool{c.SkipMessageIndexing, c.SkipStatistics, c.SkipRepeatedSchemas, c.SkipRepeatedChannelInfos, c.SkipAttachmentIndex,
		c.SkipMetadataIndex, c.SkipChunkIndex, c.SkipSummaryOffsets, c.OverrideLibrary, c.SkipMagic}
	m := 0
	for i, b := range bs {
		if b {
			m |= 1 << i
		}
	}
	return m
}

// SetFlags sets the ten flags from a bit mask.
func (c *Config) SetFlags(m int) {
	c.SkipMessageIndexing = m&1 != 0
	c.SkipStatistics = m&2 != 0
	c.SkipRepeatedSchemas = m&4 != 0
	c.SkipRepeatedChannelInfos = m&8 != 0
	c.SkipAttachmentIndex = m&16 != 0
	c.SkipMetadataIndex = m&32 != 0
	c.SkipChunkIndex = m&64 != 0
	c.SkipSummaryOffsets = m&128 != 0
	c.OverrideLibrary = m&256 != 0
	c.SkipMagic = m&512 != 0
}

// Indexed reports whether the summary keeps what index-based reading needs (C02's precondition).
func (c Config) Indexed() bool {
	return c.Chunked && !c.SkipChunkIndex && !c.SkipRepeatedSchemas && !c.SkipRepeatedChannelInfos
}

var Compressions = []string{"", "zstd", "lz4", "custom"}

var chunkSizes = []int64{1, 2, 50, 200, 1024, 4096, 64 * 1024, 0 /* library default 1 MiB */, 1 << 30}

// RandConfig draws a writer configuration. flagsDensity is the probability of each Skip flag.
func RandConfig(r *rand.Rand) Config {
	var c Config
	c.Chunked = r.Intn(5) != 0
	c.ChunkSize = chunkSizes[r.Intn(len(chunkSizes))]
	// the zstd and lz4 encoders zero multi-megabyte windows per Writer; keep them at 1/6 each
	c.Compression = []string{"", "", "custom", "custom", "zstd", "lz4"}[r.Intn(6)]
	c.Level = r.Intn(4)
	if c.Compression == "zstd" {
		// the "better"/"best" zstd encoders clear tables of tens of megabytes on every chunk: keep them rare
		c.Level = []int{0, 0, 0, 0, 1, 1, 1, 1, 2, 3}[r.Intn(10)]
	}
	c.IncludeCRC = r.Intn(4) != 0
	switch r.Intn(4) {
	case 0: // all defaults
	case 1: // sparse
		c.SetFlags(r.Intn(1024) & r.Intn(1024))
	default:
		c.SetFlags(r.Intn(1024))
	}
	if c.Compression == "custom" {
		c.CustomShadow = []string{"", "zstd", "lz4"}[r.Intn(3)]
	}
	c.AttReader = []int{0, 0, 1, 2, 3}[r.Intn(5)]
	return c
}

// ---- value pools

var BoundaryTimes = []uint64{0, 1, 2, 1000, 1 << 31, 1 << 32, 1<<63 - 1, 1 << 63, math.MaxUint64 - 2, math.MaxUint64 - 1, math.MaxUint64}

func randBytes(r *rand.Rand, n int) []byte {
	b := make([]byte, n)
	// mix compressible and incompressible content
	switch r.Intn(3) {
	case 0:
		r.Read(b)
	case 1:
		x := byte(r.Intn(256))
		for i := range b {
			b[i] = x
			if r.Intn(40) == 0 {
				x = byte(r.Intn(256))
			}
		}
	default:
		for i := range b {
			b[i] = "abcdefgh\x00\xff"[r.Intn(10)]
		}
	}
	return b
}

var utf8Pool = []string{"", "a", "topic", "/camera/front/image_raw", "é", "日本語トピック", "emoji😀x", "with space", "tab\tnewline\n", "nul\x00byte", "ünï/cödé"}
var binPool = []string{"\xff\xfe", "bad\xc3", "\x80"}

// Str draws a string; utf8Only restricts to valid UTF-8.
func Str(r *rand.Rand, utf8Only bool, maxLong int) string {
	switch k := r.Intn(12); {
	case k < 7:
		return utf8Pool[r.Intn(len(utf8Pool))]
	case k < 9:
		n := 1 + r.Intn(24)
		b := make([]byte, n)
		for i := range b {
			b[i] = "abcdefghijklmnopqrstuvwxyz_/0123456789"[r.Intn(38)]
		}
		return string(b)
	case k < 10:
		if !utf8Only {
			return binPool[r.Intn(len(binPool))]
		}
		return strings.Repeat("ß", 1+r.Intn(20))
	default:
		if maxLong <= 0 {
			return "x"
		}
		n := 1 + r.Intn(maxLong)
		b := make([]byte, n)
		for i := range b {
			b[i] = byte('a' + r.Intn(26))
		}
		return string(b)
	}
}

func strMap(r *rand.Rand, utf8Only bool, maxKeys int, maxLong int) []refmcap.KV {
	n := 0
	switch r.Intn(4) {
	case 0:
		n = 0
	case 1:
		n = 1
	default:
		n = r.Intn(maxKeys + 1)
	}
	seen := map[string]bool{}
	var out []refmcap.KV
	family := ""
	if n >= 2 && r.Intn(3) == 0 {
		// keys that share a long common prefix and have equal length (sorting shortcuts on a key prefix
		// or on the length leave their order to chance)
		family = []string{"calibration/camera_", "sensor.frame.id.", "xxxxxxxxxxxxxxxx"}[r.Intn(3)]
	}
	for i := 0; i < n; i++ {
		k := Str(r, utf8Only, 40)
		if family != "" {
			k = fmt.Sprintf("%s%03d", family, r.Intn(200))
		}
		if family == "" && r.Intn(2) == 0 {
			k = fmt.Sprintf("k%d_%s", r.Intn(1000), k)
		}
		if seen[k] {
			continue
		}
		seen[k] = true
		out = append(out, refmcap.KV{K: k, V: Str(r, utf8Only, maxLong)})
	}
	return out
}

// Shape parameterises a workload.
type Shape struct {
	Schemas, Channels, Messages, Attachments, Metadata int
	MaxPayload                                         int    // upper bound for ordinary payloads
	BigPayloads                                        bool   // include payloads around 4K/32K/128K and above
	TimeMode                                           string // asc, desc, rand, boundary, ties, smallrand
	UTF8Only                                           bool
	MaxLongStr                                         int
	Rewrites                                           bool
	BoundaryIDs                                        bool
	ManyMapKeys                                        int
	TrailingChannels                                   bool // register channels after the last message (chunk with only schema/channel records)
	HugeRecords                                        bool // one message, schema, attachment or metadata record above 1 MiB (scratch buffers grow, chunks exceed every small threshold)
}

func (s Shape) String() string {
	h := ""
	if s.HugeRecords {
		h = "/huge"
	}
	return fmt.Sprintf("s%d/c%d/m%d/a%d/md%d/%s/p%d%s", s.Schemas, s.Channels, s.Messages, s.Attachments, s.Metadata, s.TimeMode, s.MaxPayload, h)
}

var timeModes = []string{"asc", "desc", "rand", "boundary", "ties", "smallrand", "zerofirst"}

// RandShape draws a workload shape. class 0 = tiny, 1 = medium, 2 = large (many channels / big payloads).
func RandShape(r *rand.Rand, class int) Shape {
	s := Shape{TimeMode: timeModes[r.Intn(len(timeModes))], UTF8Only: false, MaxLongStr: 300, Rewrites: r.Intn(3) == 0, BoundaryIDs: r.Intn(3) == 0, ManyMapKeys: 4,
		TrailingChannels: r.Intn(5) == 0}
	switch class {
	case 0:
		s.Schemas = r.Intn(3)
		s.Channels = r.Intn(4)
		s.Messages = r.Intn(12)
		s.Attachments = r.Intn(3)
		s.Metadata = r.Intn(3)
		s.MaxPayload = 40
	case 1:
		s.Schemas = r.Intn(6)
		s.Channels = 1 + r.Intn(12)
		s.Messages = r.Intn(150)
		s.Attachments = r.Intn(5)
		s.Metadata = r.Intn(5)
		s.MaxPayload = 600
		s.MaxLongStr = 3000
		s.ManyMapKeys = 20
	case 3:
		s.Schemas = 1 + r.Intn(2)
		s.Channels = 1 + r.Intn(3)
		s.Messages = 3 + r.Intn(10)
		s.Attachments = 1 + r.Intn(2)
		s.Metadata = 1 + r.Intn(2)
		s.MaxPayload = 3000
		s.HugeRecords = true
	default:
		s.Schemas = r.Intn(10)
		s.Channels = 1 + r.Intn(700)
		s.Messages = r.Intn(400)
		if r.Intn(2) == 0 {
			s.Messages = s.Channels + r.Intn(100)
		}
		s.Attachments = r.Intn(4)
		s.Metadata = r.Intn(6)
		s.MaxPayload = 2000
		s.BigPayloads = r.Intn(2) == 0
		s.MaxLongStr = 70000
		s.ManyMapKeys = 64
	}
	return s
}

func pickTime(r *rand.Rand, mode string, i int, base uint64) uint64 {
	switch mode {
	case "asc":
		return base + uint64(i)*uint64(1+r.Intn(3))
	case "desc":
		return base + 100000 - uint64(i)
	case "rand":
		return r.Uint64()
	case "boundary":
		return BoundaryTimes[r.Intn(len(BoundaryTimes))]
	case "ties":
		return base + uint64(r.Intn(3))
	case "zerofirst":
		if i == 0 {
			return 0
		}
		return 5 + uint64(r.Intn(50))
	default: // smallrand
		return uint64(r.Intn(40))
	}
}

func payloadSize(r *rand.Rand, s Shape) int {
	if s.BigPayloads && r.Intn(12) == 0 {
		bases := []int{4096, 32 * 1024, 128 * 1024, 300 * 1024}
		b := bases[r.Intn(len(bases))]
		return b - 40 + r.Intn(80)
	}
	switch r.Intn(6) {
	case 0:
		return 0
	case 1:
		return 1
	default:
		return r.Intn(s.MaxPayload + 1)
	}
}

func pickID(r *rand.Rand, used map[uint16]bool, boundary bool, allowZero bool) uint16 {
	for {
		var id uint16
		switch {
		case boundary && r.Intn(3) == 0:
			id = []uint16{0, 1, 65535, 65534, 256, 255}[r.Intn(6)]
		case r.Intn(4) == 0:
			id = uint16(r.Intn(65536))
		default:
			id = uint16(1 + r.Intn(40))
		}
		if id == 0 && !allowZero {
			continue
		}
		if !used[id] {
			used[id] = true
			return id
		}
	}
}

// Tag is embedded at the start of every message payload that has room for it, together with the
// unique Sequence it makes each message identifiable in any read order.
func tagPayload(b []byte, ordinal int) {
	if len(b) >= 4 {
		b[0] = byte(ordinal)
		b[1] = byte(ordinal >> 8)
		b[2] = byte(ordinal >> 16)
		b[3] = 0xA5
	}
}

// RandWorkload builds a legal call sequence of the given shape.
func RandWorkload(r *rand.Rand, s Shape) *Workload {
	w := &Workload{}
	w.Header.Profile = Str(r, s.UTF8Only, 50)
	if r.Intn(2) == 0 {
		w.Header.Library = Str(r, s.UTF8Only, 50)
	}
	usedS := map[uint16]bool{}
	usedC := map[uint16]bool{}
	var schemas []*refmcap.Schema
	var channels []*refmcap.Channel
	topics := []string{Str(r, s.UTF8Only, 60), "shared/topic"}
	base := uint64(0)
	switch r.Intn(4) {
	case 0:
		base = 0
	case 1:
		base = 1_600_000_000_000_000_000
	case 2:
		base = math.MaxUint64 - 300000
	default:
		base = uint64(r.Intn(1000))
	}
	remS, remC, remM, remA, remMD := s.Schemas, s.Channels, s.Messages, s.Attachments, s.Metadata
	if s.TrailingChannels && remC > 1 {
		remC-- // one channel is held back and registered after the last message
	} else {
		s.TrailingChannels = false
	}
	ordinal := 0
	seqMask := uint32(0)
	if r.Intn(3) == 0 {
		seqMask = r.Uint32()
	}
	mkSchema := func() {
		sc := &refmcap.Schema{ID: pickID(r, usedS, s.BoundaryIDs, false), Name: Str(r, s.UTF8Only, s.MaxLongStr), Encoding: Str(r, s.UTF8Only, 30)}
		switch r.Intn(4) {
		case 0:
			sc.Data = nil
		case 1:
			sc.Data = randBytes(r, 1+r.Intn(8))
		default:
			sc.Data = randBytes(r, r.Intn(s.MaxLongStr+1))
		}
		schemas = append(schemas, sc)
		w.Ops = append(w.Ops, refmcap.Item{Schema: sc})
	}
	mkChannel := func() {
		ch := &refmcap.Channel{ID: pickID(r, usedC, s.BoundaryIDs, true), MessageEncoding: Str(r, s.UTF8Only, 30)}
		if len(schemas) > 0 && r.Intn(5) != 0 {
			ch.SchemaID = schemas[r.Intn(len(schemas))].ID
		}
		switch r.Intn(3) {
		case 0:
			ch.Topic = topics[r.Intn(len(topics))]
		default:
			ch.Topic = fmt.Sprintf("%s/%d", Str(r, s.UTF8Only, 40), len(channels))
			if r.Intn(4) == 0 {
				topics = append(topics, ch.Topic)
			}
		}
		ch.Metadata = strMap(r, s.UTF8Only, s.ManyMapKeys, s.MaxLongStr/4)
		channels = append(channels, ch)
		w.Ops = append(w.Ops, refmcap.Item{Channel: ch})
	}
	mkMessage := func() {
		ch := channels[r.Intn(len(channels))]
		if r.Intn(3) == 0 { // favour few channels so per-channel sequences are long
			ch = channels[0]
		}
		m := &refmcap.Message{ChannelID: ch.ID, Sequence: uint32(ordinal) ^ seqMask, LogTime: pickTime(r, s.TimeMode, ordinal, base)}
		switch r.Intn(3) {
		case 0:
			m.PublishTime = m.LogTime
		case 1:
			m.PublishTime = r.Uint64()
		default:
			m.PublishTime = BoundaryTimes[r.Intn(len(BoundaryTimes))]
		}
		m.Data = randBytes(r, payloadSize(r, s))
		tagPayload(m.Data, ordinal)
		ordinal++
		w.Ops = append(w.Ops, refmcap.Item{Message: m})
	}
	mkAttachment := func() {
		a := &refmcap.Attachment{LogTime: BoundaryTimes[r.Intn(len(BoundaryTimes))], CreateTime: r.Uint64() >> uint(r.Intn(64)), Name: Str(r, s.UTF8Only, s.MaxLongStr), MediaType: Str(r, s.UTF8Only, 40)}
		a.Data = randBytes(r, payloadSize(r, s))
		w.Ops = append(w.Ops, refmcap.Item{Attachment: a})
	}
	mkMetadata := func() {
		md := &refmcap.Metadata{Name: Str(r, s.UTF8Only, s.MaxLongStr), Metadata: strMap(r, s.UTF8Only, s.ManyMapKeys, s.MaxLongStr/4)}
		w.Ops = append(w.Ops, refmcap.Item{Metadata: md})
	}
	for remS+remC+remM+remA+remMD > 0 {
		// weights proportional to what remains, gated by legality
		type cand struct {
			w int
			f func()
			d *int
		}
		var cs []cand
		if remS > 0 {
			cs = append(cs, cand{remS*3 + 1, mkSchema, &remS})
		}
		if remC > 0 {
			cs = append(cs, cand{remC*2 + 1, mkChannel, &remC})
		}
		if remM > 0 && len(channels) > 0 {
			cs = append(cs, cand{remM, mkMessage, &remM})
		}
		if remA > 0 {
			cs = append(cs, cand{remA, mkAttachment, &remA})
		}
		if remMD > 0 {
			cs = append(cs, cand{remMD, mkMetadata, &remMD})
		}
		if len(cs) == 0 { // messages remain but no channel can ever exist
			break
		}
		tot := 0
		for _, c := range cs {
			tot += c.w
		}
		x := r.Intn(tot)
		for _, c := range cs {
			if x < c.w {
				c.f()
				*c.d--
				break
			}
			x -= c.w
		}
		if s.Rewrites && r.Intn(8) == 0 {
			if len(schemas) > 0 && r.Intn(2) == 0 {
				w.Ops = append(w.Ops, refmcap.Item{Schema: schemas[r.Intn(len(schemas))]})
			} else if len(channels) > 0 {
				w.Ops = append(w.Ops, refmcap.Item{Channel: channels[r.Intn(len(channels))]})
			}
		}
	}
	if s.TrailingChannels {
		mkChannel()
	}
	if s.HugeRecords {
		big := r.Intn(4) == 0 // one huge case in four goes beyond 4 MiB with incompressible content
		huge := func() []byte {
			if big {
				b := make([]byte, 4<<20+1+r.Intn(1<<20))
				r.Read(b)
				return b
			}
			return randBytes(r, 1<<20+1+r.Intn(300<<10))
		}
		var kinds []int
		for i := range w.Ops {
			it := &w.Ops[i]
			switch {
			case it.Message != nil:
				kinds = append(kinds, i)
			case it.Attachment != nil, it.Metadata != nil:
				kinds = append(kinds, i)
			case it.Schema != nil:
				kinds = append(kinds, i)
			}
		}
		// always one huge message (not the last one, when possible), plus one other huge record
		var msgs []int
		for _, i := range kinds {
			if w.Ops[i].Message != nil {
				msgs = append(msgs, i)
			}
		}
		if len(msgs) > 0 {
			k := msgs[r.Intn(len(msgs))]
			if len(msgs) > 1 {
				k = msgs[r.Intn(len(msgs)-1)]
			}
			ord := int(w.Ops[k].Message.Sequence ^ seqMask)
			w.Ops[k].Message.Data = huge()
			tagPayload(w.Ops[k].Message.Data, ord)
		}
		if len(kinds) > 0 {
			it := &w.Ops[kinds[r.Intn(len(kinds))]]
			switch {
			case it.Attachment != nil:
				it.Attachment.Data = huge()
			case it.Metadata != nil:
				it.Metadata.Metadata = append(it.Metadata.Metadata, refmcap.KV{K: "huge", V: string(bytesToASCII(huge()))})
			case it.Schema != nil:
				// identical re-writes share the pointer, so they stay identical
				it.Schema.Data = huge()
			}
		}
	}
	if s.Rewrites && len(w.Ops) > 2 {
		// derived from what exists (no draw from r): the lowest channel id that is never registered
		id := uint16(0)
		for usedC[id] {
			id++
		}
		w.Probes = []Probe{
			{Before: len(w.Ops) / 2, Msg: refmcap.Message{ChannelID: id, Sequence: 7, LogTime: 0, PublishTime: 1, Data: []byte("refused")}},
			{Before: len(w.Ops), Msg: refmcap.Message{ChannelID: id, Sequence: 8, LogTime: math.MaxUint64, Data: []byte("refused too")}},
		}
	}
	return w
}

func bytesToASCII(b []byte) []byte {
	for i := range b {
		b[i] = 'a' + b[i]%26
	}
	return b
}

// Counts returns the number of items of each kind.
func (w *Workload) Counts() (schemas, channels, messages, attachments, metadata int) {
	for _, it := range w.Ops {
		switch {
		case it.Schema != nil:
			schemas++
		case it.Channel != nil:
			channels++
		case it.Message != nil:
			messages++
		case it.Attachment != nil:
			attachments++
		case it.Metadata != nil:
			metadata++
		}
	}
	return
}

// Kinds returns how many of the five record kinds occur.
func (w *Workload) Kinds() int {
	a, b, c, d, e := w.Counts()
	n := 0
	for _, x := range []int{a, b, c, d, e} {
		if x > 0 {
			n++
		}
	}
	return n
}

// Messages returns the message items in call order.
func (w *Workload) Messages() []*refmcap.Message {
	var out []*refmcap.Message
	for _, it := range w.Ops {
		if it.Message != nil {
			out = append(out, it.Message)
		}
	}
	return out
}

// ChannelByID returns the most recently registered channel per id at the end of the workload.
func (w *Workload) ChannelByID() map[uint16]*refmcap.Channel {
	out := map[uint16]*refmcap.Channel{}
	for _, it := range w.Ops {
		if it.Channel != nil {
			out[it.Channel.ID] = it.Channel
		}
	}
	return out
}

func (w *Workload) SchemaByID() map[uint16]*refmcap.Schema {
	out := map[uint16]*refmcap.Schema{}
	for _, it := range w.Ops {
		if it.Schema != nil {
			out[it.Schema.ID] = it.Schema
		}
	}
	return out
}

// Topics returns the distinct topics in first-use order.
func (w *Workload) Topics() []string {
	seen := map[string]bool{}
	var out []string
	for _, it := range w.Ops {
		if it.Channel != nil && !seen[it.Channel.Topic] {
			seen[it.Channel.Topic] = true
			out = append(out, it.Channel.Topic)
		}
	}
	return out
}

// SortedKV returns a copy of m sorted by key (the canonical order used for comparisons).
func SortedKV(m []refmcap.KV) []refmcap.KV {
	out := append([]refmcap.KV(nil), m...)
	sort.Slice(out, func(i, j int) bool { return out[i].K < out[j].K })
	return out
}

// Rng returns the deterministic generator for one case of one property. The seed is scrambled
// (splitmix64) because math/rand sources seeded with nearby values start out correlated.
func Rng(seed int64, prop string, i int) *rand.Rand {
	h := uint64(1469598103934665603)
	for _, c := range prop {
		h = (h ^ uint64(c)) * 1099511628211
	}
	x := splitmix(uint64(seed)*0x9E3779B97F4A7C15 ^ splitmix(h) ^ splitmix(uint64(i)+0x632BE59BD9B4E019))
	return rand.New(rand.NewSource(int64(x >> 1)))
}

func splitmix(x uint64) uint64 {
	x += 0x9E3779B97F4A7C15
	x = (x ^ (x >> 30)) * 0xBF58476D1CE4E5B9
	x = (x ^ (x >> 27)) * 0x94D049BB133111EB
	return x ^ (x >> 31)
}
