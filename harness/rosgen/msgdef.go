// Package rosgen generates ROS inputs for the ros-related monitors. msgdef.go: random ROS 1 message
// type graphs, their rendering as concatenated message definitions (the text `gendeps --cat` produces:
// top-level definition, then for every dependency a separator line of '=' characters, a line
// "MSG: pkg/Type" and the dependency's definition), and the field tree the text describes, computed
// from the graph alone.
package rosgen

import (
	"bytes"
	"fmt"
	"math/rand"
	"strconv"
	"strings"
)

// Primitives are the sixteen ROS 1 built-in types.
var Primitives = []string{"bool", "int8", "uint8", "int16", "uint16", "int32", "uint32", "int64", "uint64",
	"float32", "float64", "string", "time", "duration", "char", "byte"}

var isPrimitive = func() map[string]bool {
	m := map[string]bool{}
	for _, p := range Primitives {
		m[p] = true
	}
	return m
}()

// MsgType is one message type of a graph. Pkg == "" is a package-less type (section "MSG: Name",
// referenced by its bare name; the form the parser's own unit tests use).
type MsgType struct {
	Pkg    string
	Name   string
	Level  int // generation level: references only go to strictly higher levels, so graphs are acyclic
	Fields []MsgField
	refs   int
}

func (t *MsgType) Full() string {
	if t.Pkg == "" {
		return t.Name
	}
	return t.Pkg + "/" + t.Name
}

// MsgField is one field of a type. Exactly one of Prim / Ref is set. TypeText is the element type as
// written in the definition ("int32", "pkg/Foo", "Foo", "Header"), without array brackets.
type MsgField struct {
	Name     string
	Prim     string
	Ref      *MsgType
	TypeText string
	Array    bool
	Fixed    int // > 0: fixed-size array
	// ZeroLen: a variable-length array written with the literal length 0 ("T[0]"), which the parser
	// represents like "T[]" (an array whose FixedSize is 0)
	ZeroLen bool
}

// Text returns the type as written, brackets included.
func (f *MsgField) Text() string {
	if !f.Array {
		return f.TypeText
	}
	if f.Fixed > 0 {
		return f.TypeText + "[" + strconv.Itoa(f.Fixed) + "]"
	}
	if f.ZeroLen {
		return f.TypeText + "[0]"
	}
	return f.TypeText + "[]"
}

// ExpType / ExpField mirror ros1msg.Type / ros1msg.Field.
type ExpType struct {
	BaseType  string     `json:"BaseType"`
	IsArray   bool       `json:"IsArray,omitempty"`
	FixedSize int        `json:"FixedSize,omitempty"`
	IsRecord  bool       `json:"IsRecord,omitempty"`
	Items     *ExpType   `json:"Items,omitempty"`
	Fields    []ExpField `json:"Fields,omitempty"`
}

type ExpField struct {
	Name string  `json:"Name"`
	Type ExpType `json:"Type"`
}

// Stats describes one graph and its rendering, for the evidence.
type Stats struct {
	Depth              int // longest chain of nested records below the top level (0 = flat)
	Sections           int // dependency sections rendered
	TopFields          int
	DefinedFields      int // fields over all definitions
	ExpandedFields     int // fields of the fully expanded expected tree
	RecordFields       int // non-array fields of a nested type
	PrimFields         int
	FixedPrimArrays    int
	VarPrimArrays      int
	FixedRecordArrays  int
	VarRecordArrays    int
	HeaderUses         int // fields written "Header"
	QualifiedRefs      int // fields written "pkg/Name"
	UnqualifiedRefs    int // fields written "Name", resolved in the containing type's package
	ParentRelativeRefs int // unqualified references inside a type whose package differs from the top-level package
	SameNameOtherPkg   int // unqualified references whose short name also exists in another package of the graph
	PackagelessRefs    int // fields written "Name" matching a package-less section "MSG: Name" exactly
	SharedTypes        int // types referenced from more than one field
	UnusedSections     int
	EmptyTypes         int
	HeaderDecoy        bool // a type named Header outside std_msgs exists (referenced qualified only)
	Constants          int
	StringConstHashEq  int // string constants whose value contains '#' or '='
	CommentLines       int
	TrailingComments   int
	TrailingCommentEq  int // trailing comments containing '='
	BlankLines         int
	TabOnly            bool
	Primitives         map[string]int
	SeparatorLens      map[int]int
	NoFinalNewline     bool
	IndentedSeparators int
}

// Graph is a top-level type plus the dependency types that get a section.
type Graph struct {
	Top    *MsgType
	Types  []*MsgType // every type with a section (Header included when present)
	Header *MsgType
	Stats  Stats
	memo   map[*MsgType][]ExpField
}

var pkgPool = []string{"geometry_msgs", "sensor_msgs", "my_package", "my_other_package", "pkg", "a", "b2", "nav_msgs", "std_msgs", "x_y_z"}
var typePool = []string{"Point", "Pose", "Vector3", "Quaternion", "Foo", "Bar", "Baz", "MyType", "MyOtherType", "TypeInParentPackage",
	"T", "Point32", "Twist_", "lower", "PoseWithCovariance", "A", "B", "Int32x", "string_", "Time"}
var fieldPool = []string{"x", "y", "z", "w", "data", "header", "seq", "stamp", "frame_id", "pose", "position", "orientation", "covariance",
	"f", "a1", "B", "camelCase", "with_under_score", "X9_", "foo", "bar", "baz", "MSG", "int32x", "Header_", "i"}

const identTail = "abcdefghijklmnopqrstuvwxyzABCDEFGHIJKLMNOPQRSTUVWXYZ0123456789_"

func ident(r *rand.Rand, maxLen int, lowerFirst bool) string {
	n := 1 + r.Intn(maxLen)
	b := make([]byte, n)
	if lowerFirst {
		b[0] = identTail[r.Intn(26)]
	} else {
		b[0] = identTail[r.Intn(52)]
	}
	for i := 1; i < n; i++ {
		b[i] = identTail[r.Intn(len(identTail))]
	}
	return string(b)
}

func newHeader() *MsgType {
	return &MsgType{Pkg: "std_msgs", Name: "Header", Level: 6, Fields: []MsgField{
		{Name: "seq", Prim: "uint32", TypeText: "uint32"},
		{Name: "stamp", Prim: "time", TypeText: "time"},
		{Name: "frame_id", Prim: "string", TypeText: "string"},
	}}
}

var fixedSizes = []int{1, 2, 3, 4, 9, 16, 36, 255, 256, 1000, 65536, 1000000, 2147483647}

// RandGraph draws an acyclic type graph of depth at most 5.
func RandGraph(r *rand.Rand) *Graph {
	g := &Graph{memo: map[*MsgType][]ExpField{}}
	depth := []int{0, 1, 1, 2, 2, 3, 3, 4, 4, 5, 5, 5}[r.Intn(12)]
	// packages
	npk := 1 + r.Intn(3)
	var pkgs []string
	seenP := map[string]bool{}
	for len(pkgs) < npk {
		p := pkgPool[r.Intn(len(pkgPool))]
		if r.Intn(5) == 0 {
			p = strings.ToLower(ident(r, 10, true))
		}
		if !seenP[p] {
			seenP[p] = true
			pkgs = append(pkgs, p)
		}
	}
	packageless := r.Intn(12) == 0 // some types have no package at all
	top := &MsgType{Pkg: pkgs[0], Name: "Top"}
	if packageless && r.Intn(2) == 0 {
		top.Pkg = ""
	}
	g.Top = top

	usedFull := map[string]bool{}
	usedShort := map[string]bool{}
	newName := func(pkg string) string {
		for {
			n := typePool[r.Intn(len(typePool))]
			if r.Intn(4) == 0 {
				n = ident(r, 12, false)
			}
			if isPrimitive[n] || n == "Header" {
				continue
			}
			if usedFull[pkg+"/"+n] {
				continue
			}
			// with package-less types around, short names are unique over the whole graph so that the exact
			// lookup and the package-relative lookup can never both apply
			if packageless && usedShort[n] {
				continue
			}
			usedFull[pkg+"/"+n] = true
			usedShort[n] = true
			return n
		}
	}
	var types []*MsgType
	var chain []*MsgType
	addType := func(level int, pkg string) *MsgType {
		t := &MsgType{Pkg: pkg, Level: level}
		t.Name = newName(pkg)
		types = append(types, t)
		return t
	}
	randPkg := func() string {
		if packageless && r.Intn(2) == 0 {
			return ""
		}
		return pkgs[r.Intn(npk)]
	}
	// the scenario that tells "package of the containing type" from "package of the top-level type":
	// top-level type in package A refers to B/X qualified; B/X refers to its sibling B/Y unqualified;
	// optionally a decoy A/Y with other fields exists as well
	sibling := depth >= 2 && npk >= 2 && !packageless && r.Intn(3) == 0
	for l := 1; l <= depth; l++ {
		p := randPkg()
		if sibling && l <= 2 {
			p = pkgs[1]
		}
		chain = append(chain, addType(l, p))
	}
	nExtra := 0
	if depth > 0 {
		nExtra = r.Intn(5)
	}
	for i := 0; i < nExtra; i++ {
		addType(1+r.Intn(depth), randPkg())
	}
	if sibling && r.Intn(2) == 0 && !usedFull[pkgs[0]+"/"+chain[1].Name] {
		// decoy with the sibling's short name in the top-level package
		d := &MsgType{Pkg: pkgs[0], Name: chain[1].Name, Level: 5}
		usedFull[d.Full()] = true
		types = append(types, d)
	}
	if !packageless && len(types) > 0 && r.Intn(40) == 0 {
		// a type called Header outside std_msgs; "Header" alone must still mean std_msgs/Header
		for _, p := range pkgs {
			if p != "std_msgs" {
				types = append(types, &MsgType{Pkg: p, Name: "Header", Level: 5})
				g.Stats.HeaderDecoy = true
				break
			}
		}
	}
	shortCount := map[string]int{}
	for _, t := range types {
		shortCount[t.Name]++
	}
	header := newHeader()
	headerUsed := false

	g.Stats.Primitives = map[string]int{}
	fill := func(t *MsgType, mandatory *MsgType) {
		var fs []MsgField
		nprim := r.Intn(6)
		if t == top && r.Intn(3) != 0 {
			nprim = 1 + r.Intn(6)
		}
		for i := 0; i < nprim; i++ {
			p := Primitives[r.Intn(len(Primitives))]
			f := MsgField{Prim: p, TypeText: p}
			switch x := r.Intn(20); {
			case x < 5:
				f.Array = true
			case x < 9:
				f.Array = true
				f.Fixed = fixedSizes[r.Intn(len(fixedSizes))]
				if r.Intn(4) == 0 {
					f.Fixed = 1 + r.Intn(5000)
				}
			}
			f.ZeroLen = f.Array && f.Fixed == 0 && len(fs)%4 == 1 // (no draw from r: earlier graphs keep their shape)
			fs = append(fs, f)
		}
		var targets []*MsgType
		if mandatory != nil {
			targets = append(targets, mandatory)
		}
		var cands []*MsgType
		for _, c := range types {
			if c.Level > t.Level {
				cands = append(cands, c)
			}
		}
		if len(cands) > 0 {
			for k := []int{0, 0, 1, 1, 2, 3}[r.Intn(6)]; k > 0; k-- {
				targets = append(targets, cands[r.Intn(len(cands))])
			}
		}
		if t.Level < 5 && r.Intn(4) == 0 {
			targets = append(targets, header)
		}
		for _, c := range targets {
			f := MsgField{Ref: c}
			c.refs++
			switch {
			case c == header:
				headerUsed = true
				f.TypeText = "Header"
				if r.Intn(7) == 0 {
					f.TypeText = "std_msgs/Header"
				}
			case c.Pkg == "":
				f.TypeText = c.Name
			case c.Pkg == t.Pkg && c.Name != "Header" && (r.Intn(5) != 0 || (sibling && t == chain[0] && c == chain[1])):
				f.TypeText = c.Name
			default:
				f.TypeText = c.Full()
			}
			switch x := r.Intn(20); {
			case x < 4:
				f.Array = true
			case x < 6:
				f.Array = true
				f.Fixed = fixedSizes[r.Intn(6)]
			}
			f.ZeroLen = f.Array && f.Fixed == 0 && len(fs)%4 == 2
			fs = append(fs, f)
		}
		r.Shuffle(len(fs), func(i, j int) { fs[i], fs[j] = fs[j], fs[i] })
		usedN := map[string]bool{}
		for i := range fs {
			n := fieldPool[r.Intn(len(fieldPool))]
			if r.Intn(4) == 0 {
				n = ident(r, 14, false)
			}
			for usedN[n] {
				n += strconv.Itoa(r.Intn(10))
			}
			usedN[n] = true
			fs[i].Name = n
		}
		t.Fields = fs
	}
	var first *MsgType
	if depth > 0 {
		first = chain[0]
	}
	fill(top, first)
	if sibling {
		// the top-level type names chain[0] with its package
		for i := range top.Fields {
			if top.Fields[i].Ref == chain[0] {
				top.Fields[i].TypeText = chain[0].Full()
			}
		}
	}
	for _, t := range types {
		var m *MsgType
		if t.Level >= 1 && t.Level <= depth && t == chain[t.Level-1] && t.Level < depth {
			m = chain[t.Level]
		}
		fill(t, m)
	}
	if headerUsed || r.Intn(30) == 0 {
		g.Header = header
		types = append(types, header)
	}
	g.Types = types

	// statistics over the definitions
	st := &g.Stats
	st.Sections = len(types)
	st.TopFields = len(top.Fields)
	all := append([]*MsgType{top}, types...)
	for _, t := range all {
		if len(t.Fields) == 0 {
			st.EmptyTypes++
		}
		if t != top && t.refs == 0 {
			st.UnusedSections++
		}
		if t.refs > 1 {
			st.SharedTypes++
		}
		for i := range t.Fields {
			f := &t.Fields[i]
			st.DefinedFields++
			if f.Ref == nil {
				st.Primitives[f.Prim]++
				switch {
				case !f.Array:
					st.PrimFields++
				case f.Fixed > 0:
					st.FixedPrimArrays++
				default:
					st.VarPrimArrays++
				}
				continue
			}
			switch {
			case !f.Array:
				st.RecordFields++
			case f.Fixed > 0:
				st.FixedRecordArrays++
			default:
				st.VarRecordArrays++
			}
			switch {
			case f.TypeText == "Header":
				st.HeaderUses++
			case strings.Contains(f.TypeText, "/"):
				st.QualifiedRefs++
			case f.Ref.Pkg == "":
				st.PackagelessRefs++
			default:
				st.UnqualifiedRefs++
				if t.Pkg != top.Pkg {
					st.ParentRelativeRefs++
				}
				if shortCount[f.Ref.Name] > 1 {
					st.SameNameOtherPkg++
				}
			}
		}
	}
	st.Depth = g.depthOf(top, map[*MsgType]int{})
	st.ExpandedFields = countFields(g.Expected())
	return g
}

func (g *Graph) depthOf(t *MsgType, memo map[*MsgType]int) int {
	if d, ok := memo[t]; ok {
		return d
	}
	d := 0
	for i := range t.Fields {
		if c := t.Fields[i].Ref; c != nil {
			if x := 1 + g.depthOf(c, memo); x > d {
				d = x
			}
		}
	}
	memo[t] = d
	return d
}

func countFields(fs []ExpField) int {
	n := len(fs)
	for i := range fs {
		n += countFields(fs[i].Type.Fields)
		if fs[i].Type.Items != nil {
			n += countFields(fs[i].Type.Items.Fields)
		}
	}
	return n
}

// Expected returns the field tree of the top-level type.
func (g *Graph) Expected() []ExpField { return g.expand(g.Top) }

func (g *Graph) expand(t *MsgType) []ExpField {
	if fs, ok := g.memo[t]; ok {
		return fs
	}
	out := make([]ExpField, 0, len(t.Fields))
	for i := range t.Fields {
		f := &t.Fields[i]
		elem := ExpType{BaseType: f.TypeText}
		if f.Ref != nil {
			elem.IsRecord = true
			elem.Fields = g.expand(f.Ref)
		}
		if f.Array {
			e := elem
			out = append(out, ExpField{Name: f.Name, Type: ExpType{BaseType: f.Text(), IsArray: true, FixedSize: f.Fixed, Items: &e}})
		} else {
			out = append(out, ExpField{Name: f.Name, Type: elem})
		}
	}
	g.memo[t] = out
	return out
}

// ---- rendering

var commentPool = []string{"", " ", " a comment", " x = 3", "# double", " MSG: pkg/Type", " int32 not_a_field", " =====", "[3]", " ]b[ a", " héllo wörld 日本語",
	" Standard metadata for higher-level stamped data types.", " see http://wiki.ros.org/msg#Fields", "\tTAB", " a=b # c=d", " string s", "!", " ==="}

func commentText(r *rand.Rand) string {
	if r.Intn(400) == 0 {
		// a very long line (beyond the 64 KiB default of line scanners), e.g. an embedded licence or data blob
		n := 64<<10 + 1 + r.Intn(40<<10)
		b := make([]byte, n)
		for i := range b {
			b[i] = byte('a' + i%26)
		}
		return " " + string(b)
	}
	if r.Intn(3) == 0 {
		n := r.Intn(40)
		b := make([]byte, n)
		for i := range b {
			b[i] = byte(0x20 + r.Intn(0x5f)) // printable ASCII
		}
		return string(b)
	}
	return commentPool[r.Intn(len(commentPool))]
}

func ws(r *rand.Rand, emptyOdds int) string {
	if r.Intn(emptyOdds) != 0 {
		return ""
	}
	return []string{" ", "  ", "\t", " \t", "\t ", "    ", "\t\t"}[r.Intn(7)]
}

var constTypes = []string{"int8", "uint8", "int16", "uint16", "int32", "uint32", "int64", "uint64", "float32", "float64", "bool", "string", "char", "byte"}
var stringConstPool = []string{"", "hello", "#comments are part of the value", "a=b", "x # y = z", "\"quoted\" #=", "===", "# = #", "MSG: a/B", "int32 x", " padded  ", "a]b[", "1=2=3"}

func (g *Graph) constantLine(r *rand.Rand, sep func() string) string {
	t := constTypes[r.Intn(len(constTypes))]
	name := strings.ToUpper(ident(r, 10, false))
	eq := []string{"=", " = ", " =", "= ", "\t=\t"}[r.Intn(5)]
	var val string
	switch t {
	case "string":
		val = stringConstPool[r.Intn(len(stringConstPool))]
		if r.Intn(3) == 0 {
			n := r.Intn(30)
			b := make([]byte, n)
			for i := range b {
				b[i] = byte(0x20 + r.Intn(0x5f))
			}
			val = string(b)
		}
		if strings.ContainsAny(val, "#=") {
			g.Stats.StringConstHashEq++
		}
	case "bool":
		val = []string{"True", "False", "1", "0", "true"}[r.Intn(5)]
	case "float32", "float64":
		val = []string{"1.5", "-0.25", "3.14159", "1e-3", "-2.5E6", "0.0"}[r.Intn(6)]
	default:
		val = []string{"0", "1", "-1", "127", "255", "0x10", "42", "-32768"}[r.Intn(8)]
		if strings.HasPrefix(t, "u") || t == "char" || t == "byte" {
			val = strings.TrimPrefix(val, "-")
		}
		if r.Intn(3) == 0 {
			val += ws(r, 2) + "#" + commentText(r)
		}
	}
	return ws(r, 6) + t + sep() + name + eq + val + ws(r, 6)
}

// Render writes the concatenated definition. With tabOnly every field line separates type and name by
// tab characters alone (legal in .msg files); otherwise the run between type and name always contains
// at least one space and may contain tabs.
func (g *Graph) Render(r *rand.Rand, tabOnly bool) []byte {
	st := &g.Stats
	st.TabOnly = tabOnly
	st.SeparatorLens = map[int]int{}
	noise := r.Intn(4) // 0: none (plain gendeps look) .. 3: heavy
	var lines []string
	sep := func() string {
		if tabOnly {
			return []string{"\t", "\t", "\t\t", "\t\t\t"}[r.Intn(4)]
		}
		if noise == 0 {
			return " "
		}
		return []string{" ", " ", " ", "  ", "   ", "        ", " \t", "\t ", "\t \t", " \t ", "  \t\t"}[r.Intn(11)]
	}
	lead := func() string {
		if noise < 2 {
			return ""
		}
		return ws(r, 5)
	}
	noiseLines := func() {
		if noise == 0 {
			return
		}
		for k := r.Intn(1 + noise); k > 0; k-- {
			switch r.Intn(4) {
			case 0:
				lines = append(lines, lead()+"#"+commentText(r))
				st.CommentLines++
			case 1:
				lines = append(lines, ws(r, 3))
				st.BlankLines++
			case 2:
				lines = append(lines, g.constantLine(r, sep))
				st.Constants++
			}
		}
	}
	body := func(t *MsgType) {
		noiseLines()
		for i := range t.Fields {
			f := &t.Fields[i]
			l := lead() + f.Text() + sep() + f.Name
			if noise > 0 {
				l += ws(r, 5)
				if r.Intn(4) == 0 {
					c := commentText(r)
					l += "#" + c
					st.TrailingComments++
					if strings.Contains(c, "=") {
						st.TrailingCommentEq++
					}
				}
			}
			lines = append(lines, l)
			noiseLines()
		}
	}
	body(g.Top)
	order := append([]*MsgType(nil), g.Types...)
	r.Shuffle(len(order), func(i, j int) { order[i], order[j] = order[j], order[i] })
	sepLens := []int{80, 80, 80, 80, 1, 2, 3, 40, 79, 81, 200}
	for _, t := range order {
		n := sepLens[r.Intn(len(sepLens))]
		if noise == 0 {
			n = 80
		}
		st.SeparatorLens[n]++
		s := strings.Repeat("=", n)
		if noise >= 2 {
			s += ws(r, 4)
			if r.Intn(12) == 0 {
				s = ws(r, 1) + s
				st.IndentedSeparators++
			}
		}
		lines = append(lines, s)
		h := "MSG: " + t.Full()
		if noise >= 2 {
			h += ws(r, 6)
			if r.Intn(12) == 0 {
				h = ws(r, 1) + h
			}
		}
		lines = append(lines, h)
		body(t)
	}
	var b bytes.Buffer
	for i, l := range lines {
		b.WriteString(l)
		if i < len(lines)-1 || r.Intn(4) != 0 {
			b.WriteByte('\n')
		} else {
			st.NoFinalNewline = true
		}
	}
	return b.Bytes()
}

// TopNames lists the expected top-level field names.
func (g *Graph) TopNames() []string {
	var out []string
	for i := range g.Top.Fields {
		out = append(out, fmt.Sprintf("%s %s", g.Top.Fields[i].Text(), g.Top.Fields[i].Name))
	}
	return out
}
