// Package rosgen writes ROS 1 bag files (format 2.0) and ROS 2 sqlite databases from small models.
// It shares no code with /repo/go/ros. The bag layout follows http://wiki.ros.org/Bags/Format/2.0.
package rosgen

import (
	"bytes"
	"encoding/binary"
	"fmt"

	"github.com/pierrec/lz4/v4"
)

type KV struct{ K, V string }

type BagConn struct {
	ID    uint32
	Topic string
	Type  string
	MD5   string
	Def   string
	Extra []KV // further connection-header fields (callerid, latching, ...)
	// TopicInData: also list the topic inside the connection data header, as real recorders do
	TopicInData bool
}

type BagMsg struct {
	Conn  uint32
	Secs  uint32
	Nsecs uint32
	Data  []byte
}

func (m BagMsg) Nanos() uint64 { return uint64(m.Secs)*1_000_000_000 + uint64(m.Nsecs) }

type BagModel struct {
	Conns []BagConn
	Msgs  []BagMsg
	// layout
	Chunked          bool
	Compression      string // "none", "lz4", or "mixed" (chunks alternate lz4, none, lz4, ...)
	MsgsPerChunk     int
	RepeatConnEvery  bool // repeat the connection record in every chunk that uses it
	IndexSection     bool // connection + chunk info records after the last chunk
	IndexDataRecords bool // index data records after each chunk
	ConnFirst        bool // all connection records up front (unchunked layout) instead of before first use
}

var le = binary.LittleEndian

// FieldPos records where a length or value field of the bag lies (for structured corruption).
type FieldPos struct {
	Off   int
	Width int
	Name  string
}

type bagWriter struct {
	buf    bytes.Buffer
	fields *[]FieldPos
	base   int // absolute offset of buf[0] (for records inside chunks this is unknown; fields are only recorded at top level)
	record bool
}

func header(fields ...KV) []byte {
	var b []byte
	for _, f := range fields {
		b = le.AppendUint32(b, uint32(len(f.K)+1+len(f.V)))
		b = append(b, f.K...)
		b = append(b, '=')
		b = append(b, f.V...)
	}
	return b
}

func u32s(v uint32) string { return string(le.AppendUint32(nil, v)) }
func u64s(v uint64) string { return string(le.AppendUint64(nil, v)) }

// appendRecord appends <header_len><header><data_len><data> and notes the positions of the length fields.
func appendRecord(dst []byte, hdr, data []byte, fields *[]FieldPos, what string) []byte {
	if fields != nil {
		*fields = append(*fields, FieldPos{len(dst), 4, what + ".header_len"})
		// each field length inside the header
		off := len(dst) + 4
		for p := 0; p+4 <= len(hdr); {
			n := int(le.Uint32(hdr[p:]))
			*fields = append(*fields, FieldPos{off + p, 4, what + ".field_len"})
			p += 4 + n
		}
		*fields = append(*fields, FieldPos{len(dst) + 4 + len(hdr), 4, what + ".data_len"})
	}
	dst = le.AppendUint32(dst, uint32(len(hdr)))
	dst = append(dst, hdr...)
	dst = le.AppendUint32(dst, uint32(len(data)))
	return append(dst, data...)
}

func connRecord(c *BagConn) (hdr, data []byte) {
	hdr = header(KV{"op", "\x07"}, KV{"conn", u32s(c.ID)}, KV{"topic", c.Topic})
	var df []KV
	if c.TopicInData {
		df = append(df, KV{"topic", c.Topic})
	}
	df = append(df, KV{"type", c.Type}, KV{"md5sum", c.MD5}, KV{"message_definition", c.Def})
	df = append(df, c.Extra...)
	return hdr, header(df...)
}

func msgRecord(m *BagMsg) (hdr, data []byte) {
	t := append(le.AppendUint32(nil, m.Secs), le.AppendUint32(nil, m.Nsecs)...)
	return header(KV{"op", "\x02"}, KV{"conn", u32s(m.Conn)}, KV{"time", string(t)}), m.Data
}

// Encode lays the model out as a bag file. fields (optional) receives the positions of every
// top-level length field.
func (b *BagModel) Encode(fields *[]FieldPos) ([]byte, error) {
	out := []byte("#ROSBAG V2.0\n")
	// bag header record, padded so that the record occupies 4096 bytes
	hdrPos := len(out)
	bagHdr := func(indexPos uint64, conns, chunks uint32) []byte {
		h := header(KV{"op", "\x03"}, KV{"index_pos", u64s(indexPos)}, KV{"conn_count", u32s(conns)}, KV{"chunk_count", u32s(chunks)})
		pad := 4096 - 4 - len(h) - 4
		return appendRecord(nil, h, bytes.Repeat([]byte{' '}, pad), nil, "")
	}
	out = append(out, bagHdr(0, 0, 0)...)
	if fields != nil {
		h0 := header(KV{"op", "\x03"}, KV{"index_pos", u64s(0)}, KV{"conn_count", u32s(0)}, KV{"chunk_count", u32s(0)})
		*fields = append(*fields, FieldPos{hdrPos, 4, "bagheader.header_len"}, FieldPos{hdrPos + 4 + len(h0), 4, "bagheader.data_len"})
		for p := 0; p+4 <= len(h0); {
			*fields = append(*fields, FieldPos{hdrPos + 4 + p, 4, "bagheader.field_len"})
			p += 4 + int(le.Uint32(h0[p:]))
		}
	}
	nChunks := 0
	connByID := map[uint32]*BagConn{}
	for i := range b.Conns {
		connByID[b.Conns[i].ID] = &b.Conns[i]
	}
	written := map[uint32]bool{}
	type chunkInfo struct {
		pos        uint64
		start, end uint64
		counts     map[uint32]uint32
		order      []uint32
	}
	var infos []chunkInfo
	if b.ConnFirst && !b.Chunked {
		for i := range b.Conns {
			h, d := connRecord(&b.Conns[i])
			out = appendRecord(out, h, d, fields, "connection")
			written[b.Conns[i].ID] = true
		}
	}
	per := b.MsgsPerChunk
	if per <= 0 {
		per = 1 << 30
	}
	for i := 0; i < len(b.Msgs); {
		j := i + per
		if j > len(b.Msgs) {
			j = len(b.Msgs)
		}
		if !b.Chunked {
			for k := i; k < j; k++ {
				m := &b.Msgs[k]
				if !written[m.Conn] {
					written[m.Conn] = true
					h, d := connRecord(connByID[m.Conn])
					out = appendRecord(out, h, d, fields, "connection")
				}
				h, d := msgRecord(m)
				out = appendRecord(out, h, d, fields, "message")
			}
			i = j
			continue
		}
		var raw []byte
		ci := chunkInfo{pos: uint64(len(out)), counts: map[uint32]uint32{}}
		inChunk := map[uint32]bool{}
		type idxEntry struct {
			t   uint64
			off uint32
		}
		idx := map[uint32][]idxEntry{}
		for k := i; k < j; k++ {
			m := &b.Msgs[k]
			if !written[m.Conn] || (b.RepeatConnEvery && !inChunk[m.Conn]) {
				written[m.Conn] = true
				h, d := connRecord(connByID[m.Conn])
				raw = appendRecord(raw, h, d, nil, "")
			}
			if !inChunk[m.Conn] {
				inChunk[m.Conn] = true
				ci.order = append(ci.order, m.Conn)
			}
			idx[m.Conn] = append(idx[m.Conn], idxEntry{uint64(m.Secs) | uint64(m.Nsecs)<<32, uint32(len(raw))})
			h, d := msgRecord(m)
			raw = appendRecord(raw, h, d, nil, "")
			ci.counts[m.Conn]++
			t := m.Nanos()
			if k == i || t < ci.start {
				ci.start = t
			}
			if k == i || t > ci.end {
				ci.end = t
			}
		}
		stored := raw
		comp := b.Compression
		if comp == "mixed" {
			comp = []string{"lz4", "none"}[nChunks%2]
		}
		nChunks++
		switch comp {
		case "none":
		case "lz4":
			var cb bytes.Buffer
			w := lz4.NewWriter(&cb)
			if _, err := w.Write(raw); err != nil {
				return nil, err
			}
			if err := w.Close(); err != nil {
				return nil, err
			}
			stored = cb.Bytes()
		default:
			return nil, fmt.Errorf("unsupported compression %q", b.Compression)
		}
		h := header(KV{"op", "\x05"}, KV{"compression", comp}, KV{"size", u32s(uint32(len(raw)))})
		out = appendRecord(out, h, stored, fields, "chunk")
		if b.IndexDataRecords {
			for _, id := range ci.order {
				var d []byte
				for _, e := range idx[id] {
					d = le.AppendUint64(d, e.t)
					d = le.AppendUint32(d, e.off)
				}
				h := header(KV{"op", "\x04"}, KV{"ver", u32s(1)}, KV{"conn", u32s(id)}, KV{"count", u32s(uint32(len(idx[id])))})
				out = appendRecord(out, h, d, fields, "indexdata")
			}
		}
		infos = append(infos, ci)
		i = j
	}
	// connections never used by a message still belong to the bag
	for i := range b.Conns {
		if !written[b.Conns[i].ID] {
			written[b.Conns[i].ID] = true
			h, d := connRecord(&b.Conns[i])
			out = appendRecord(out, h, d, fields, "connection")
		}
	}
	indexPos := uint64(len(out))
	if b.IndexSection {
		for i := range b.Conns {
			h, d := connRecord(&b.Conns[i])
			out = appendRecord(out, h, d, fields, "connection(index)")
		}
		for _, ci := range infos {
			var d []byte
			for _, id := range ci.order {
				d = le.AppendUint32(d, id)
				d = le.AppendUint32(d, ci.counts[id])
			}
			rt := func(ns uint64) string {
				return string(append(le.AppendUint32(nil, uint32(ns/1_000_000_000)), le.AppendUint32(nil, uint32(ns%1_000_000_000))...))
			}
			h := header(KV{"op", "\x06"}, KV{"ver", u32s(1)}, KV{"chunk_pos", u64s(ci.pos)}, KV{"start_time", rt(ci.start)}, KV{"end_time", rt(ci.end)}, KV{"count", u32s(uint32(len(ci.order)))})
			out = appendRecord(out, h, d, fields, "chunkinfo")
		}
	}
	copy(out[hdrPos:], bagHdr(indexPos, uint32(len(b.Conns)), uint32(len(infos))))
	return out, nil
}
