package rosgen

import (
	"database/sql"
	"fmt"
	"math/rand"
	"os"
	"path/filepath"
	"sort"
	"strings"

	_ "github.com/mattn/go-sqlite3" // sqlite driver (cgo), the same one /repo/go/ros uses
)

type DB3Topic struct {
	ID     int
	Name   string
	Type   string // e.g. pkg_a/msg/Foo, or a non-message type such as pkg_a/srv/Bar
	Format string
	QoS    string
}

type DB3Row struct {
	TopicID   int
	Timestamp int64
	Data      []byte
}

type DB3Model struct {
	HasQoSColumn bool
	Topics       []DB3Topic
	Rows         []DB3Row          // in insertion order
	MsgFiles     map[string]string // "pkg/msg/Name" -> file content
}

var ros2Primitives = []string{"bool", "int8", "uint8", "int16", "uint16", "int32", "uint32", "int64", "uint64", "float32", "float64", "string", "char", "byte"}

func IsMessageType(t string) bool {
	// <package>/msg/<Type>
	parts := strings.Split(t, "/")
	return len(parts) == 3 && parts[1] == "msg" && parts[0] != "" && parts[2] != ""
}

// RandMsgTree generates a set of .msg files: packages, nested/shared/qualified sub-types.
func RandMsgTree(r *rand.Rand) (files map[string]string, tops []string) {
	files = map[string]string{}
	pkgs := []string{"pkg_a", "pkg_b", "std_msgs"}
	n := 3 + r.Intn(8)
	var names []string
	for i := 0; i < n; i++ {
		names = append(names, fmt.Sprintf("%s/msg/T%d", pkgs[r.Intn(len(pkgs))], i))
	}
	// type names of which one is a suffix of another in the same package and sorts after it in the
	// package's resource index (like sensor_msgs CompressedImage / Image)
	if r.Intn(2) == 0 {
		j := r.Intn(len(names))
		p := strings.Split(names[j], "/")
		names = append(names, p[0]+"/msg/A"+p[2], p[0]+"/msg/Compressed"+p[2])
	}
	for i, full := range names {
		pkg := strings.Split(full, "/")[0]
		var sb strings.Builder
		if r.Intn(3) == 0 {
			sb.WriteString("# definition of " + full + "\n")
		}
		nf := 1 + r.Intn(5)
		for f := 0; f < nf; f++ {
			if r.Intn(6) == 0 {
				sb.WriteString("\n")
			}
			if r.Intn(6) == 0 {
				sb.WriteString("  # a comment line\n")
			}
			typ := ros2Primitives[r.Intn(len(ros2Primitives))]
			// reference only later types so the graph is acyclic
			if i+1 < len(names) && r.Intn(3) == 0 {
				ref := names[i+1+r.Intn(len(names)-i-1)]
				rp := strings.Split(ref, "/")
				if rp[0] == pkg && r.Intn(2) == 0 {
					typ = rp[2] // unqualified: same package as the containing type
				} else {
					typ = rp[0] + "/" + rp[2]
				}
			}
			switch r.Intn(7) {
			case 0:
				typ += "[]"
			case 1:
				typ += fmt.Sprintf("[%d]", 1+r.Intn(9))
			case 2:
				typ += fmt.Sprintf("[<=%d]", 1+r.Intn(9))
			case 3:
				if typ == "string" {
					typ += "<=10"
				}
			}
			line := fmt.Sprintf("%s field_%d", typ, f)
			switch r.Intn(8) {
			case 0:
				if !strings.Contains(typ, "/") && !strings.Contains(typ, "[") && typ != "string<=10" && isPrim(typ) && typ != "string" {
					line = fmt.Sprintf("%s CONST_%d=%d", typ, f, r.Intn(100))
				}
			case 1:
				line += "  # trailing comment"
			case 2:
				line = strings.Replace(line, " ", "   ", 1)
			}
			sb.WriteString(line)
			if f < nf-1 || r.Intn(3) != 0 {
				sb.WriteString("\n")
			}
		}
		files[full] = sb.String()
	}
	// top-level candidates: any type
	tops = append(tops, names...)
	return files, tops
}

func isPrim(t string) bool {
	for _, p := range ros2Primitives {
		if p == t {
			return true
		}
	}
	return t == "time" || t == "duration"
}

const separator = "================================================================================\n"

// ExpectedSchema applies the documented concatenation rule to the generated files: the top-level
// definition, then for every not-yet-seen non-primitive field type in breadth-first order a separator
// line, "MSG: pkg/Type" and that type's definition.
func ExpectedSchema(files map[string]string, top string) (string, error) {
	type item struct{ full, text string }
	text, ok := files[top]
	if !ok {
		return "", fmt.Errorf("no file for %s", top)
	}
	queue := []item{{top, text}}
	seen := map[string]bool{top: true}
	var out strings.Builder
	first := true
	for len(queue) > 0 {
		it := queue[0]
		queue = queue[1:]
		if !first {
			if s := out.String(); len(s) > 0 && s[len(s)-1] != '\n' {
				out.WriteByte('\n')
			}
			out.WriteString(separator)
			out.WriteString("MSG: " + strings.Replace(it.full, "/msg/", "/", 1) + "\n")
		}
		out.WriteString(it.text)
		first = false
		pkg := strings.Split(it.full, "/")[0]
		for _, line := range strings.Split(it.text, "\n") {
			line = strings.TrimSpace(line)
			if line == "" || strings.HasPrefix(line, "#") {
				continue
			}
			ft := strings.Fields(line)[0]
			if i := strings.IndexByte(ft, '['); i > 0 {
				ft = ft[:i]
			}
			if i := strings.IndexByte(ft, '<'); i > 0 {
				ft = ft[:i]
			}
			if isPrim(ft) {
				continue
			}
			var q string
			if p := strings.Split(ft, "/"); len(p) == 1 {
				q = pkg + "/msg/" + ft
			} else {
				q = p[0] + "/msg/" + p[1]
			}
			sub, ok := files[q]
			if !ok {
				return "", fmt.Errorf("no file for %s", q)
			}
			if !seen[q] {
				seen[q] = true
				queue = append(queue, item{q, sub})
			}
		}
	}
	return out.String(), nil
}

// Write creates <dir>/bag.db3 and the ament-index tree <dir>/ws; it returns the db path and search dir.
func (m *DB3Model) Write(dir string) (dbPath, searchDir string, err error) {
	dbPath = filepath.Join(dir, "bag.db3")
	searchDir = filepath.Join(dir, "ws")
	db, err := sql.Open("sqlite3", dbPath)
	if err != nil {
		return "", "", err
	}
	defer db.Close()
	qos := ""
	if m.HasQoSColumn {
		qos = ", offered_qos_profiles TEXT NOT NULL"
	}
	stmts := []string{
		"CREATE TABLE topics(id INTEGER PRIMARY KEY, name TEXT NOT NULL, type TEXT NOT NULL, serialization_format TEXT NOT NULL" + qos + ")",
		"CREATE TABLE messages(id INTEGER PRIMARY KEY, topic_id INTEGER NOT NULL, timestamp INTEGER NOT NULL, data BLOB NOT NULL)",
		"CREATE INDEX timestamp_idx ON messages (timestamp ASC)",
	}
	for _, s := range stmts {
		if _, err := db.Exec(s); err != nil {
			return "", "", err
		}
	}
	tx, err := db.Begin()
	if err != nil {
		return "", "", err
	}
	for _, t := range m.Topics {
		if m.HasQoSColumn {
			_, err = tx.Exec("INSERT INTO topics(id,name,type,serialization_format,offered_qos_profiles) VALUES(?,?,?,?,?)", t.ID, t.Name, t.Type, t.Format, t.QoS)
		} else {
			_, err = tx.Exec("INSERT INTO topics(id,name,type,serialization_format) VALUES(?,?,?,?)", t.ID, t.Name, t.Type, t.Format)
		}
		if err != nil {
			return "", "", err
		}
	}
	for _, r := range m.Rows {
		if _, err = tx.Exec("INSERT INTO messages(topic_id,timestamp,data) VALUES(?,?,?)", r.TopicID, r.Timestamp, r.Data); err != nil {
			return "", "", err
		}
	}
	if err := tx.Commit(); err != nil {
		return "", "", err
	}
	// ament index
	byPkg := map[string][]string{}
	for full, text := range m.MsgFiles {
		p := strings.Split(full, "/")
		byPkg[p[0]] = append(byPkg[p[0]], "msg/"+p[2]+".msg")
		fp := filepath.Join(searchDir, "share", p[0], "msg", p[2]+".msg")
		if err := os.MkdirAll(filepath.Dir(fp), 0o755); err != nil {
			return "", "", err
		}
		if err := os.WriteFile(fp, []byte(text), 0o644); err != nil {
			return "", "", err
		}
	}
	idxDir := filepath.Join(searchDir, "share", "ament_index", "resource_index", "rosidl_interfaces")
	if err := os.MkdirAll(idxDir, 0o755); err != nil {
		return "", "", err
	}
	for pkg, list := range byPkg {
		sort.Strings(list)
		if err := os.WriteFile(filepath.Join(idxDir, pkg), []byte(strings.Join(list, "\n")+"\n"), 0o644); err != nil {
			return "", "", err
		}
	}
	return dbPath, searchDir, nil
}
