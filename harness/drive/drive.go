// Package drive executes workloads against the real github.com/foxglove/mcap/go/mcap code and records
// what happens at the public boundary.
package drive

import (
	"bytes"
	"errors"
	"fmt"
	"io"

	"github.com/foxglove/mcap/go/mcap"

	"verifharness/core"
	"verifharness/gen"
	"verifharness/refmcap"
)

// ---- conversions between the neutral (refmcap) representation and mcap types

func toMap(kv []refmcap.KV, reverse bool) map[string]string {
	if kv == nil {
		return nil
	}
	m := make(map[string]string, len(kv))
	if reverse {
		for i := len(kv) - 1; i >= 0; i-- {
			m[kv[i].K] = kv[i].V
		}
	} else {
		for _, e := range kv {
			m[e.K] = e.V
		}
	}
	return m
}

func fromMap(m map[string]string) []refmcap.KV {
	out := make([]refmcap.KV, 0, len(m))
	for k, v := range m {
		out = append(out, refmcap.KV{K: k, V: v})
	}
	return gen.SortedKV(out)
}

func ToSchema(s *refmcap.Schema) *mcap.Schema {
	return &mcap.Schema{ID: s.ID, Name: s.Name, Encoding: s.Encoding, Data: append([]byte(nil), s.Data...)}
}
func ToChannel(c *refmcap.Channel, reverse bool) *mcap.Channel {
	return &mcap.Channel{ID: c.ID, SchemaID: c.SchemaID, Topic: c.Topic, MessageEncoding: c.MessageEncoding, Metadata: toMap(c.Metadata, reverse)}
}
func ToMessage(m *refmcap.Message) *mcap.Message {
	return &mcap.Message{ChannelID: m.ChannelID, Sequence: m.Sequence, LogTime: m.LogTime, PublishTime: m.PublishTime, Data: append([]byte(nil), m.Data...)}
}

// Canonical forms: opcode byte + spec serialisation with maps sorted by key. Two records have the
// same content iff their canonical forms are equal.

func CanonSchemaR(s *refmcap.Schema) string { return "\x03" + string(s.Body()) }
func CanonChannelR(c *refmcap.Channel) string {
	cc := *c
	cc.Metadata = gen.SortedKV(c.Metadata)
	return "\x04" + string(cc.Body())
}
func CanonMessageR(m *refmcap.Message) string { return "\x05" + string(m.Body()) }
func CanonMetadataR(m *refmcap.Metadata) string {
	mm := *m
	mm.Metadata = gen.SortedKV(m.Metadata)
	return "\x0c" + string(mm.Body())
}
func CanonAttachmentR(a *refmcap.Attachment) string { return "\x09" + string(a.Body(false)) }

func CanonSchema(s *mcap.Schema) string {
	if s == nil {
		return "nil-schema"
	}
	return CanonSchemaR(&refmcap.Schema{ID: s.ID, Name: s.Name, Encoding: s.Encoding, Data: s.Data})
}
func CanonChannel(c *mcap.Channel) string {
	if c == nil {
		return "nil-channel"
	}
	return CanonChannelR(&refmcap.Channel{ID: c.ID, SchemaID: c.SchemaID, Topic: c.Topic, MessageEncoding: c.MessageEncoding, Metadata: fromMap(c.Metadata)})
}
func CanonMessage(m *mcap.Message) string {
	if m == nil {
		return "nil-message"
	}
	return CanonMessageR(&refmcap.Message{ChannelID: m.ChannelID, Sequence: m.Sequence, LogTime: m.LogTime, PublishTime: m.PublishTime, Data: m.Data})
}
func CanonMetadata(m *mcap.Metadata) string {
	return CanonMetadataR(&refmcap.Metadata{Name: m.Name, Metadata: fromMap(m.Metadata)})
}

// Describe renders a canonical form for humans (bounded).
func Describe(canon string) string {
	if len(canon) == 0 {
		return "<empty>"
	}
	if canon[0] > 0x0f {
		return canon
	}
	p, _, err := refmcap.ParseBody(canon[0], []byte(canon[1:]))
	if err != nil {
		return fmt.Sprintf("%s<unparsable %v>", refmcap.OpName(canon[0]), err)
	}
	s := fmt.Sprintf("%s%+v", refmcap.OpName(canon[0]), p)
	if len(s) > 300 {
		s = s[:300] + "…"
	}
	return s
}

// ---- custom compressor pair ("verifxor"): 6-byte header "VX" + uint32 length, then bytes XOR 0xA5.

const CustomName = "verifxor"

type XorCompressor struct {
	w   io.Writer
	buf bytes.Buffer
}

func (x *XorCompressor) Write(p []byte) (int, error) { return x.buf.Write(p) }
func (x *XorCompressor) Close() error {
	out := XorEncode(x.buf.Bytes())
	x.buf.Reset()
	_, err := x.w.Write(out)
	return err
}
func (x *XorCompressor) Reset(w io.Writer) { x.w = w; x.buf.Reset() }

func XorEncode(raw []byte) []byte {
	out := make([]byte, 6+len(raw))
	out[0], out[1] = 'V', 'X'
	out[2], out[3], out[4], out[5] = byte(len(raw)), byte(len(raw)>>8), byte(len(raw)>>16), byte(len(raw)>>24)
	for i, b := range raw {
		out[6+i] = b ^ 0xA5
	}
	return out
}

func XorDecode(stored []byte) ([]byte, error) {
	if len(stored) < 6 || stored[0] != 'V' || stored[1] != 'X' {
		return nil, errors.New("verifxor: bad header")
	}
	n := int(stored[2]) | int(stored[3])<<8 | int(stored[4])<<16 | int(stored[5])<<24
	if n != len(stored)-6 {
		return nil, errors.New("verifxor: bad length")
	}
	out := make([]byte, n)
	for i := range out {
		out[i] = stored[6+i] ^ 0xA5
	}
	return out, nil
}

type XorDecompressor struct {
	src  io.Reader
	out  *bytes.Reader
	done bool
}

func (x *XorDecompressor) Reset(r io.Reader) error {
	x.src = r
	x.out = nil
	x.done = false
	return nil
}
func (x *XorDecompressor) Read(p []byte) (int, error) {
	if x.out == nil {
		all, err := io.ReadAll(x.src)
		if err != nil {
			return 0, err
		}
		dec, err := XorDecode(all)
		if err != nil {
			return 0, err
		}
		x.out = bytes.NewReader(dec)
	}
	return x.out.Read(p)
}

var RefCustom = map[string]func([]byte) ([]byte, error){CustomName: XorDecode}
var RefCustomEnc = map[string]func([]byte) ([]byte, error){CustomName: func(b []byte) ([]byte, error) { return XorEncode(b), nil }}

// CompressionName maps the config's compression to the string stored in the file.
func CompressionName(c gen.Config) string {
	if c.Compression == "custom" {
		return CustomName
	}
	return c.Compression
}

// Options builds fresh mcap.WriterOptions for a configuration.
func Options(c gen.Config) *mcap.WriterOptions {
	o := &mcap.WriterOptions{
		IncludeCRC: c.IncludeCRC, Chunked: c.Chunked, ChunkSize: c.ChunkSize, CompressionLevel: mcap.CompressionLevel(c.Level),
		SkipMessageIndexing: c.SkipMessageIndexing, SkipStatistics: c.SkipStatistics, SkipRepeatedSchemas: c.SkipRepeatedSchemas,
		SkipRepeatedChannelInfos: c.SkipRepeatedChannelInfos, SkipAttachmentIndex: c.SkipAttachmentIndex, SkipMetadataIndex: c.SkipMetadataIndex,
		SkipChunkIndex: c.SkipChunkIndex, SkipSummaryOffsets: c.SkipSummaryOffsets, OverrideLibrary: c.OverrideLibrary, SkipMagic: c.SkipMagic,
	}
	switch c.Compression {
	case "custom":
		o.Compressor = mcap.NewCustomCompressor(CustomName, &XorCompressor{})
		o.Compression = mcap.CompressionFormat(c.CustomShadow)
	default:
		o.Compression = mcap.CompressionFormat(c.Compression)
	}
	return o
}

// ---- sink

// SinkWrite is one Write call observed at the destination.
type SinkWrite struct {
	Call int // index of the API call that was executing (-1 = NewWriter)
	Len  int
}

// Sink is the recording (and optionally failing) destination handed to mcap.NewWriter.
type Sink struct {
	Buf     bytes.Buffer
	Writes  []SinkWrite
	CurCall int

	// fault injection
	FailAt    int  // index of the Write to fail; -1 = never
	Short     bool // fail with a short count + io.ErrShortWrite instead of 0 bytes + error
	ShortNil  bool // accept half of the bytes and return the short count with a nil error (a destination that breaks the io.Writer contract the way io.Copy and bufio guard against)
	Full      bool // accept every byte of the failing write and still report an error (a destination that reports a deferred failure)
	Sticky    bool // all later writes fail too
	Fired     bool
	FiredCall int
	Record    bool // keep the Writes list
}

var ErrInjected = errors.New("injected sink failure")

func NewSink() *Sink { return &Sink{FailAt: -1, CurCall: -1, FiredCall: -2, Record: true} }

func (s *Sink) Write(p []byte) (int, error) {
	idx := len(s.Writes)
	if s.Record {
		s.Writes = append(s.Writes, SinkWrite{s.CurCall, len(p)})
	} else {
		s.Writes = append(s.Writes, SinkWrite{})
	}
	if s.FailAt >= 0 && (idx == s.FailAt || (s.Sticky && idx > s.FailAt)) {
		if !s.Fired {
			s.Fired = true
			s.FiredCall = s.CurCall
		}
		if s.Full {
			s.Buf.Write(p)
			return len(p), ErrInjected
		}
		if s.ShortNil && len(p) > 0 {
			n := len(p) / 2
			s.Buf.Write(p[:n])
			return n, nil
		}
		if s.Short && len(p) > 0 {
			n := len(p) / 2
			s.Buf.Write(p[:n])
			return n, io.ErrShortWrite
		}
		return 0, ErrInjected
	}
	return s.Buf.Write(p)
}

// AttachmentReader wraps attachment data in one of the reader shapes of gen.Config.AttReader.
func AttachmentReader(data []byte, mode int) io.Reader {
	grow := len(data) / 512 // large attachments: at most about 500 reads (every read is one write on the sink)
	switch mode {
	case 1:
		return &dataEOFReader{b: data}
	case 2:
		return &stepReader{b: data, step: 1 + grow}
	case 3:
		return &stepReader{b: data, step: 7 + grow}
	}
	return bytes.NewReader(data)
}

// dataEOFReader hands out its last bytes together with io.EOF (legal for an io.Reader) and has no WriteTo.
type dataEOFReader struct {
	b   []byte
	pos int
}

func (d *dataEOFReader) Read(p []byte) (int, error) {
	if d.pos >= len(d.b) {
		return 0, io.EOF
	}
	n := copy(p, d.b[d.pos:])
	d.pos += n
	if d.pos >= len(d.b) {
		return n, io.EOF
	}
	return n, nil
}

// stepReader delivers at most step bytes per Read and has no WriteTo.
type stepReader struct {
	b    []byte
	pos  int
	step int
}

func (d *stepReader) Read(p []byte) (int, error) {
	if d.pos >= len(d.b) {
		return 0, io.EOF
	}
	if len(p) > d.step {
		p = p[:d.step]
	}
	n := copy(p, d.b[d.pos:])
	d.pos += n
	return n, nil
}

// Call is one writer API call of an execution.
type Call struct {
	Kind  string // header schema channel message attachment metadata close
	Op    int    // index into Workload.Ops, -1 for header/close
	Err   error
	Panic *core.PanicError
	// SinkLen is the number of bytes the destination had accepted when the call returned.
	SinkLen int
}

// WriteResult is everything observed while executing a workload.
type WriteResult struct {
	NewErr   error
	Calls    []Call
	Sink     *Sink
	Stats    *mcap.Statistics // writer.Statistics after Close (deep copy)
	ChunkIdx int              // len(writer.ChunkIndexes)
	// ProbesIssued / ProbesAccepted: WriteMessage calls on a never-registered channel (Workload.Probes) and
	// how many of them did not return an error
	ProbesIssued, ProbesAccepted int
	Writer   *mcap.Writer
}

func (r *WriteResult) Bytes() []byte { return r.Sink.Buf.Bytes() }

// FirstErr returns the first failing call, or nil.
func (r *WriteResult) FirstErr() *Call {
	for i := range r.Calls {
		if r.Calls[i].Err != nil || r.Calls[i].Panic != nil {
			return &r.Calls[i]
		}
	}
	return nil
}

// WriteOpts tunes RunWriter.
type WriteOpts struct {
	ReverseMaps   bool                                            // build every map argument in reverse insertion order
	AttachmentSrc func(a *refmcap.Attachment) (io.Reader, uint64) // override attachment source / declared size
	StopOnError   bool                                            // stop issuing workload calls at the first error (Close is still called once)
}

// RunWriter executes w against a real mcap.Writer writing into sink.
func RunWriter(w *gen.Workload, c gen.Config, sink *Sink, wo *WriteOpts) *WriteResult {
	if wo == nil {
		wo = &WriteOpts{}
	}
	res := &WriteResult{Sink: sink}
	sink.CurCall = -1
	var writer *mcap.Writer
	if p := core.Safe(func() { writer, res.NewErr = mcap.NewWriter(sink, Options(c)) }); p != nil {
		res.NewErr = p
		return res
	}
	if res.NewErr != nil {
		return res
	}
	res.Writer = writer
	do := func(kind string, op int, f func() error) bool {
		sink.CurCall = len(res.Calls)
		call := Call{Kind: kind, Op: op}
		call.Panic = core.Safe(func() { call.Err = f() })
		call.SinkLen = sink.Buf.Len()
		res.Calls = append(res.Calls, call)
		return call.Err == nil && call.Panic == nil
	}
	ok := do("header", -1, func() error {
		return writer.WriteHeader(&mcap.Header{Profile: w.Header.Profile, Library: w.Header.Library})
	})
	probe := func(before int) {
		for k := range w.Probes {
			if w.Probes[k].Before != before {
				continue
			}
			var err error
			if p := core.Safe(func() { err = writer.WriteMessage(ToMessage(&w.Probes[k].Msg)) }); p != nil || err == nil {
				res.ProbesAccepted++
			}
			res.ProbesIssued++
		}
	}
	for i := range w.Ops {
		if !ok && wo.StopOnError {
			break
		}
		if ok {
			probe(i)
		}
		it := &w.Ops[i]
		var good bool
		switch {
		case it.Schema != nil:
			good = do("schema", i, func() error { return writer.WriteSchema(ToSchema(it.Schema)) })
		case it.Channel != nil:
			good = do("channel", i, func() error { return writer.WriteChannel(ToChannel(it.Channel, wo.ReverseMaps)) })
		case it.Message != nil:
			good = do("message", i, func() error { return writer.WriteMessage(ToMessage(it.Message)) })
		case it.Attachment != nil:
			a := it.Attachment
			src := AttachmentReader(a.Data, c.AttReader)
			size := uint64(len(a.Data))
			if wo.AttachmentSrc != nil {
				src, size = wo.AttachmentSrc(a)
			}
			good = do("attachment", i, func() error {
				return writer.WriteAttachment(&mcap.Attachment{LogTime: a.LogTime, CreateTime: a.CreateTime, Name: a.Name, MediaType: a.MediaType, DataSize: size, Data: src})
			})
		case it.Metadata != nil:
			good = do("metadata", i, func() error {
				return writer.WriteMetadata(&mcap.Metadata{Name: it.Metadata.Name, Metadata: toMap(it.Metadata.Metadata, wo.ReverseMaps)})
			})
		}
		ok = ok && good
	}
	if ok {
		probe(len(w.Ops))
	}
	do("close", -1, func() error { return writer.Close() })
	if writer.Statistics != nil {
		st := *writer.Statistics
		st.ChannelMessageCounts = map[uint16]uint64{}
		for k, v := range writer.Statistics.ChannelMessageCounts {
			st.ChannelMessageCounts[k] = v
		}
		res.Stats = &st
	}
	res.ChunkIdx = len(writer.ChunkIndexes)
	return res
}

// Expect derives the validator's expectation from a configuration.
func Expect(c gen.Config) refmcap.Expect {
	tri := func(skip bool) refmcap.Tri {
		if skip {
			return refmcap.No
		}
		return refmcap.Yes
	}
	ex := refmcap.Expect{
		SkipMagic:         c.SkipMagic,
		ChunkIndexes:      tri(c.SkipChunkIndex),
		AttachmentIndexes: tri(c.SkipAttachmentIndex),
		MetadataIndexes:   tri(c.SkipMetadataIndex),
		Statistics:        tri(c.SkipStatistics),
		RepeatedSchemas:   tri(c.SkipRepeatedSchemas),
		RepeatedChannels:  tri(c.SkipRepeatedChannelInfos),
		SummaryOffsets:    tri(c.SkipSummaryOffsets),
		CRC:               tri(!c.IncludeCRC),
	}
	if c.Chunked {
		ex.MessageIndexes = tri(c.SkipMessageIndexing)
		ex.MessagesInChunks = refmcap.Yes
		name := CompressionName(c)
		ex.Compression = &name
	} else {
		ex.MessageIndexes = refmcap.No
		ex.ChunkIndexes = refmcap.No
	}
	return ex
}

// ExpectedLibrary is the documented rule for the header's library string.
func ExpectedLibrary(c gen.Config, given string) string {
	if c.OverrideLibrary {
		return given
	}
	lib := "mcap-go/" + trimV(mcap.Version)
	if given != "" && given != lib {
		lib += "; " + given
	}
	return lib
}

func trimV(s string) string {
	if len(s) > 0 && s[0] == 'v' {
		return s[1:]
	}
	return s
}
