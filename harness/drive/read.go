package drive

import (
	"errors"
	"fmt"
	"io"

	"github.com/foxglove/mcap/go/mcap"

	"verifharness/core"
	"verifharness/refmcap"
)

// LexOpts selects lexer options in a serialisable form.
type LexOpts struct {
	SkipMagic     bool
	Validate      bool
	EmitInvalid   bool
	ComputeAttCRC bool
	NoAttachCB    bool
	EmitChunks    bool
	Custom        bool
	MaxRecord     int
	MaxChunk      int
	KeepRaw       bool // retain the slices returned by Next(nil) for the aliasing check
	// ComputedFirst: the attachment callback asks for ComputedCRC before ParsedCRC (both orders are legal)
	ComputedFirst bool
	// ExtraOpts: NewLexer is handed a second, zero-valued options struct after the real one. NewLexer takes
	// its options as a variadic parameter and uses the first struct only, so this must change nothing.
	// Lex also does it whenever ComputedFirst is set (the callers alternate that flag).
	ExtraOpts bool
	// AfterErr: after the terminal error (not after a clean end), Next is called this many more times and
	// what it returns is recorded in LexResult.After
	AfterErr int
}

// Out is one record delivered by the lexer (or its attachment callback).
type Out struct {
	Op    byte   // opcode; 0xFE = TokenInvalidChunk
	Canon string // canonical content (see Canon* in drive.go); for other records op + raw content
	// attachments
	AttDeclared  uint64
	AttGot       int
	AttReadErr   error
	ParsedCRC    uint32
	ComputedCRC  uint32
	CRCErr       error
	ComputedZero bool
}

type LexResult struct {
	Outs  []Out
	Err   error // terminal error (io.EOF for a clean end)
	Panic *core.PanicError
	// After holds the outcome of every further Next call made after the terminal error: the error, or nil
	// when the call returned a token
	After []error
	raw   [][]byte
	snap  []string
}

const OpInvalidChunk = 0xFE

var tokenOp = map[mcap.TokenType]byte{
	mcap.TokenHeader: 1, mcap.TokenFooter: 2, mcap.TokenSchema: 3, mcap.TokenChannel: 4, mcap.TokenMessage: 5, mcap.TokenChunk: 6,
	mcap.TokenMessageIndex: 7, mcap.TokenChunkIndex: 8, mcap.TokenAttachmentIndex: 0xA, mcap.TokenStatistics: 0xB, mcap.TokenMetadata: 0xC,
	mcap.TokenMetadataIndex: 0xD, mcap.TokenSummaryOffset: 0xE, mcap.TokenDataEnd: 0xF,
}

// LexerOptions converts LexOpts; the attachment callback appends to res.
func (o LexOpts) lexerOptions(res *LexResult) *mcap.LexerOptions {
	lo := &mcap.LexerOptions{SkipMagic: o.SkipMagic, ValidateChunkCRCs: o.Validate, EmitInvalidChunks: o.EmitInvalid, ComputeAttachmentCRCs: o.ComputeAttCRC,
		EmitChunks: o.EmitChunks, MaxRecordSize: o.MaxRecord, MaxDecompressedChunkSize: o.MaxChunk}
	if o.Custom {
		lo.Decompressors = map[mcap.CompressionFormat]mcap.ResettableReader{CustomName: &XorDecompressor{}}
	}
	if !o.NoAttachCB {
		lo.AttachmentCallback = func(ar *mcap.AttachmentReader) error {
			out := Out{Op: refmcap.OpAttachment, AttDeclared: ar.DataSize}
			data, err := io.ReadAll(ar.Data())
			out.AttGot = len(data)
			out.AttReadErr = err
			a := &refmcap.Attachment{LogTime: ar.LogTime, CreateTime: ar.CreateTime, Name: ar.Name, MediaType: ar.MediaType, Data: data}
			if err == nil && uint64(len(data)) == ar.DataSize {
				if o.ComputedFirst {
					out.ComputedCRC, out.CRCErr = ar.ComputedCRC()
					if out.CRCErr == nil {
						out.ParsedCRC, out.CRCErr = ar.ParsedCRC()
					}
				} else {
					out.ParsedCRC, out.CRCErr = ar.ParsedCRC()
					if out.CRCErr == nil {
						out.ComputedCRC, out.CRCErr = ar.ComputedCRC()
					}
				}
			} else if err == nil {
				out.AttReadErr = io.ErrUnexpectedEOF
			}
			// canonical: fields + data (+ declared size when the data came short)
			out.Canon = "\x09" + string(a.Body(true)[:len(a.Body(true))-4])
			res.Outs = append(res.Outs, out)
			if out.AttReadErr != nil {
				return out.AttReadErr
			}
			if out.CRCErr != nil {
				return out.CRCErr
			}
			return nil
		}
	}
	return lo
}

// AttachmentCanon is the canonical form the attachment callback produces for a.
func AttachmentCanon(a *refmcap.Attachment) string {
	b := a.Body(true)
	return "\x09" + string(b[:len(b)-4])
}

// canonToken parses a token with the library's Parse* functions and re-serialises it canonically.
func canonToken(tt mcap.TokenType, rec []byte) (string, error) {
	switch tt {
	case mcap.TokenHeader:
		h, err := mcap.ParseHeader(rec)
		if err != nil {
			return "", err
		}
		return "\x01" + string((&refmcap.Header{Profile: h.Profile, Library: h.Library}).Body()), nil
	case mcap.TokenSchema:
		s, err := mcap.ParseSchema(rec)
		if err != nil {
			return "", err
		}
		return CanonSchema(s), nil
	case mcap.TokenChannel:
		c, err := mcap.ParseChannel(rec)
		if err != nil {
			return "", err
		}
		return CanonChannel(c), nil
	case mcap.TokenMessage:
		m, err := mcap.ParseMessage(rec)
		if err != nil {
			return "", err
		}
		return CanonMessage(m), nil
	case mcap.TokenMetadata:
		m, err := mcap.ParseMetadata(rec)
		if err != nil {
			return "", err
		}
		return CanonMetadata(m), nil
	}
	return string([]byte{tokenOp[tt]}) + string(rec), nil
}

// Lex runs the lexer to its terminal outcome.
func Lex(r io.Reader, o LexOpts) *LexResult {
	res := &LexResult{}
	res.Panic = core.Safe(func() {
		var lexer *mcap.Lexer
		var err error
		if o.ExtraOpts || o.ComputedFirst {
			lexer, err = mcap.NewLexer(r, o.lexerOptions(res), &mcap.LexerOptions{})
		} else {
			lexer, err = mcap.NewLexer(r, o.lexerOptions(res))
		}
		if err != nil {
			res.Err = err
			return
		}
		defer lexer.Close()
		for {
			tt, rec, err := lexer.Next(nil)
			if err != nil {
				if tt == mcap.TokenInvalidChunk {
					res.Outs = append(res.Outs, Out{Op: OpInvalidChunk, Canon: err.Error()})
					continue
				}
				res.Err = err
				if !errors.Is(err, io.EOF) {
					for k := 0; k < o.AfterErr; k++ {
						_, _, e := lexer.Next(nil)
						res.After = append(res.After, e)
					}
				}
				return
			}
			c, perr := canonToken(tt, rec)
			if perr != nil {
				res.Err = fmt.Errorf("parse %v: %w", tt, perr)
				return
			}
			res.Outs = append(res.Outs, Out{Op: tokenOp[tt], Canon: c})
			if o.KeepRaw {
				res.raw = append(res.raw, rec)
				res.snap = append(res.snap, string(rec))
			}
		}
	})
	return res
}

// AliasingProblem reports the first token slice returned by Next(nil) whose content changed afterwards.
func (r *LexResult) AliasingProblem() string {
	for i := range r.raw {
		if string(r.raw[i]) != r.snap[i] {
			return fmt.Sprintf("token %d returned by Next(nil) was altered by later reads", i)
		}
	}
	return ""
}

// Clean reports whether the terminal outcome is the library's end-of-data signal.
func CleanEOF(err error) bool { return err != nil && errors.Is(err, io.EOF) }

// ---- message iterators

type NextMode int

const (
	NextIntoNil NextMode = iota
	NextNil
	NextIntoReused
)

// Triple is one (schema, channel, message) result in canonical form.
type Triple struct {
	S, C, M string
	Seq     uint32
	LogTime uint64
	ChanID  uint16
}

func (t Triple) Key() string { return t.S + "|" + t.C + "|" + t.M }

type IterResult struct {
	OpenErr  error // from NewReader or Messages
	Triples  []Triple
	Err      error // terminal error; nil when the iterator ended with io.EOF exactly
	EOFWrap  bool  // terminal error wraps io.EOF but is not io.EOF itself
	Panic    *core.PanicError
	Metadata []string // canonical metadata records delivered to the callback
	Info     *mcap.Info
	InfoErr  error
	After    []error // outcome of each further call after the terminal error (nil = a message was returned)

	keptS []*mcap.Schema
	keptC []*mcap.Channel
	keptM []*mcap.Message
	snapS []string
	snapC []string
	snapM []string
}

type IterOpts struct {
	Opts       []mcap.ReadOpt
	Mode       NextMode
	MetadataCB bool
	WantInfo   bool
	Max        int // stop after this many messages (0 = unlimited)
	AfterErr   int // further Next calls after a terminal error (outcomes in IterResult.After)
	// InfoFirst: Reader.Info() is called before Reader.Messages() on the same Reader (its error, e.g. on a
	// non-seekable source, is ignored)
	InfoFirst bool
	// MetadataFirst: with InfoFirst, every metadata record the summary indexes is also fetched with
	// Reader.GetMetadata before Reader.Messages() is called
	MetadataFirst bool
	// SecondIterator: after the iterator under observation has been obtained, Reader.Messages() is called
	// once more with default options and its result is discarded unread
	SecondIterator bool
	// Sample is called after every successful NextInto (C20 memory monitor).
	Sample func(it mcap.MessageIterator, n int)
}

// ReadMessages opens a reader on r and drains the iterator.
func ReadMessages(r io.Reader, o IterOpts) *IterResult {
	res := &IterResult{}
	res.Panic = core.Safe(func() {
		reader, err := mcap.NewReader(r)
		if err != nil {
			res.OpenErr = err
			return
		}
		defer reader.Close()
		opts := append([]mcap.ReadOpt(nil), o.Opts...)
		if o.MetadataCB {
			opts = append(opts, mcap.WithMetadataCallback(func(m *mcap.Metadata) error {
				res.Metadata = append(res.Metadata, CanonMetadata(m))
				return nil
			}))
		}
		if o.InfoFirst {
			info, _ := reader.Info()
			if o.MetadataFirst && info != nil {
				for _, mi := range info.MetadataIndexes {
					if _, err := reader.GetMetadata(mi.Offset); err != nil {
						res.OpenErr = fmt.Errorf("GetMetadata before Messages: %w", err)
						return
					}
				}
			}
		}
		it, err := reader.Messages(opts...)
		if err != nil {
			res.OpenErr = err
			return
		}
		if o.SecondIterator {
			_, _ = reader.Messages()
		}
		if o.WantInfo {
			res.Info, res.InfoErr = reader.Info()
		}
		var reused *mcap.Message
		if o.Mode == NextIntoReused {
			reused = &mcap.Message{}
		}
		for n := 0; o.Max == 0 || n < o.Max; n++ {
			var s *mcap.Schema
			var c *mcap.Channel
			var m *mcap.Message
			var err error
			switch o.Mode {
			case NextIntoNil:
				s, c, m, err = it.NextInto(nil)
			case NextNil:
				s, c, m, err = it.Next(nil)
			default:
				s, c, m, err = it.NextInto(reused)
			}
			if err != nil {
				if err == io.EOF { //nolint:errorlint // exact sentinel is the documented end signal
					return
				}
				res.Err = err
				res.EOFWrap = errors.Is(err, io.EOF)
				for k := 0; k < o.AfterErr; k++ {
					_, _, _, e := it.NextInto(nil)
					res.After = append(res.After, e)
				}
				return
			}
			if m == nil || c == nil {
				res.Err = fmt.Errorf("iterator returned nil message/channel without error")
				return
			}
			t := Triple{S: CanonSchema(s), C: CanonChannel(c), M: CanonMessage(m), Seq: m.Sequence, LogTime: m.LogTime, ChanID: m.ChannelID}
			res.Triples = append(res.Triples, t)
			if o.Mode != NextIntoReused {
				res.keptM = append(res.keptM, m)
				res.snapM = append(res.snapM, t.M)
			}
			res.keptS = append(res.keptS, s)
			res.snapS = append(res.snapS, t.S)
			res.keptC = append(res.keptC, c)
			res.snapC = append(res.snapC, t.C)
			if o.Sample != nil {
				o.Sample(it, n)
			}
		}
	})
	return res
}

// AliasingProblem reports the first returned value whose content changed after it was returned.
func (r *IterResult) AliasingProblem() string {
	for i := range r.keptM {
		if CanonMessage(r.keptM[i]) != r.snapM[i] {
			return fmt.Sprintf("message %d (seq %d) was altered after it had been returned", i, r.Triples[i].Seq)
		}
	}
	for i := range r.keptS {
		if CanonSchema(r.keptS[i]) != r.snapS[i] {
			return fmt.Sprintf("schema returned with message %d was altered afterwards", i)
		}
	}
	for i := range r.keptC {
		if CanonChannel(r.keptC[i]) != r.snapC[i] {
			return fmt.Sprintf("channel returned with message %d was altered afterwards", i)
		}
	}
	return ""
}

// Failed reports any non-clean outcome.
func (r *IterResult) Failed() error {
	switch {
	case r.Panic != nil:
		return r.Panic
	case r.OpenErr != nil:
		return r.OpenErr
	case r.Err != nil:
		return r.Err
	}
	return nil
}

// InterleavedRead opens ONE Reader and consumes two iterators obtained from it alternately (a from
// optsA one message at a time, b from optsB three at a time), calling Info-driven random access in
// between. Iterators of one Reader share its ReadSeeker; each must still see exactly its own result.
func InterleavedRead(r io.ReadSeeker, optsA, optsB []mcap.ReadOpt, randomAccess bool) (a, b *IterResult) {
	a, b = &IterResult{}, &IterResult{}
	p := core.Safe(func() {
		reader, err := mcap.NewReader(r)
		if err != nil {
			a.OpenErr, b.OpenErr = err, err
			return
		}
		defer reader.Close()
		ita, err := reader.Messages(optsA...)
		if err != nil {
			a.OpenErr = err
		}
		itb, err := reader.Messages(optsB...)
		if err != nil {
			b.OpenErr = err
		}
		var info *mcap.Info
		if randomAccess {
			info, _ = reader.Info()
		}
		step := func(it mcap.MessageIterator, res *IterResult) bool {
			s, c, m, err := it.NextInto(nil)
			if err != nil {
				if err != io.EOF { //nolint:errorlint
					res.Err = err
				}
				return false
			}
			res.Triples = append(res.Triples, Triple{S: CanonSchema(s), C: CanonChannel(c), M: CanonMessage(m), Seq: m.Sequence, LogTime: m.LogTime, ChanID: m.ChannelID})
			return true
		}
		liveA, liveB := a.OpenErr == nil, b.OpenErr == nil
		n := 0
		for liveA || liveB {
			if liveA {
				liveA = step(ita, a)
			}
			for k := 0; k < 3 && liveB; k++ {
				liveB = step(itb, b)
			}
			n++
			if info != nil && n%2 == 0 {
				if len(info.MetadataIndexes) > 0 {
					_, _ = reader.GetMetadata(info.MetadataIndexes[n%len(info.MetadataIndexes)].Offset)
				}
				if len(info.AttachmentIndexes) > 0 {
					if ar, err := reader.GetAttachmentReader(info.AttachmentIndexes[n%len(info.AttachmentIndexes)].Offset); err == nil {
						_, _ = io.Copy(io.Discard, ar.Data())
					}
				}
			}
		}
	})
	if p != nil {
		a.Panic, b.Panic = p, p
	}
	return a, b
}
