//go:build verif

// Package fuzz holds the coverage-guided explorer of C10's thorough tier (go test -fuzz). It only
// explores: every crasher it finds is re-run through the isolated worker and judged by C10's oracle.
package fuzz

import (
	"testing"

	"verifharness/mon"
)

func FuzzDecode(f *testing.F) {
	for _, s := range mon.C10FuzzSeeds() {
		f.Add(s)
	}
	f.Fuzz(func(t *testing.T, data []byte) {
		if len(data) > 64<<10 {
			return
		}
		mon.C10FuzzOne(data)
	})
}
