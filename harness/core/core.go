// Package core holds the plumbing shared by all monitors: verdicts, evidence, known findings, replay files.
package core

import (
	"crypto/sha256"
	"encoding/hex"
	"encoding/json"
	"fmt"
	"os"
	"path/filepath"
	"runtime"
	"runtime/debug"
	"sort"
	"strconv"
	"sync"
	"sync/atomic"
	"time"
)

// VerifDir is the directory holding check, known_findings.json, py/ and harness/ (set by ./check).
var VerifDir = verifDir()

func verifDir() string {
	if d := os.Getenv("VERIF_DIR"); d != "" {
		return d
	}
	return "/verif"
}

// OutDir is where evidence and replay files are written: /verif, or $VERIF_OUT in self-test runs
// against a scratch copy of the repository.
func OutDir() string {
	if d := os.Getenv("VERIF_OUT"); d != "" {
		return d
	}
	return VerifDir
}

// Ctx describes one invocation of a check.
type Ctx struct {
	Prop     string
	Tier     string // quick | thorough
	Seed     int64
	RepoDir  string
	Replay   string // non-empty: re-execute exactly this witness file
	Workers  int
	BinDir   string // where ./check put helper binaries (worker, conformance tools)
	SelfPath string
}

func (c *Ctx) Thorough() bool { return c.Tier == "thorough" }

// Pick returns q in the quick tier and t in the thorough tier.
func (c *Ctx) Pick(q, t int) int {
	if c.Thorough() {
		return t
	}
	return q
}

// Violation is one refuted execution.
type Violation struct {
	Kind   string `json:"kind"` // matcher id; compared with known_findings.json
	Msg    string `json:"msg"`
	Replay any    `json:"replay,omitempty"`
}

// Finding is one entry of known_findings.json.
type Finding struct {
	Property string `json:"property"`
	ID       string `json:"id"`
	Status   string `json:"status"` // known | fixed
	Commit   string `json:"commit,omitempty"`
	What     string `json:"what"`
}

type findingsFile struct {
	Findings []Finding `json:"findings"`
}

func LoadFindings() ([]Finding, error) {
	b, err := os.ReadFile(filepath.Join(VerifDir, "known_findings.json"))
	if err != nil {
		if os.IsNotExist(err) {
			return nil, nil
		}
		return nil, err
	}
	var f findingsFile
	if err := json.Unmarshal(b, &f); err != nil {
		return nil, err
	}
	return f.Findings, nil
}

// Report accumulates what a run observed. All methods are safe for concurrent use.
type Report struct {
	ctx   *Ctx
	start time.Time
	mu    sync.Mutex

	evaluations atomic.Int64
	distinct    map[[16]byte]struct{}
	counters    map[string]int64
	samples     []any
	maxSamples  int
	violations  []Violation
	knownHits   map[string]int
	known       map[string]Finding
	notes       []string

	Level        string
	Rule         string
	Assumptions  []string
	Exhaustive   bool
	MinDistinct  int // fewer distinct non-trivial cases than this ⇒ inconclusive
	inconclusive []string
	extra        map[string]any
	patterns     map[string]map[string]int64
}

func NewReport(ctx *Ctx) *Report {
	r := &Report{ctx: ctx, start: time.Now(), distinct: map[[16]byte]struct{}{}, counters: map[string]int64{}, maxSamples: 6,
		knownHits: map[string]int{}, known: map[string]Finding{}, Level: "exploration", MinDistinct: 2, extra: map[string]any{}, patterns: map[string]map[string]int64{}}
	fs, err := LoadFindings()
	if err != nil {
		r.Inconclusive("cannot read known_findings.json: " + err.Error())
	}
	for _, f := range fs {
		if f.Property == ctx.Prop && f.Status == "known" {
			r.known[f.ID] = f
		}
	}
	return r
}

func (r *Report) Eval(n int) { r.evaluations.Add(int64(n)) }

// Distinct records a non-trivial case under its distinguishing key.
func (r *Report) Distinct(key ...any) {
	h := sha256.Sum256([]byte(fmt.Sprint(key...)))
	var k [16]byte
	copy(k[:], h[:16])
	r.mu.Lock()
	r.distinct[k] = struct{}{}
	r.mu.Unlock()
}

func (r *Report) Count(name string, n int64) {
	r.mu.Lock()
	r.counters[name] += n
	r.mu.Unlock()
}

// Max keeps the maximum of a named gauge.
func (r *Report) Max(name string, v int64) {
	r.mu.Lock()
	if v > r.counters[name] {
		r.counters[name] = v
	}
	r.mu.Unlock()
}

func (r *Report) Sample(s any) {
	r.mu.Lock()
	if len(r.samples) < r.maxSamples {
		r.samples = append(r.samples, s)
	}
	r.mu.Unlock()
}

// NotePattern counts occurrences of a named observation class (distinct states/outcomes seen).
func NotePattern(r *Report, group, v string) {
	r.mu.Lock()
	m := r.patterns[group]
	if m == nil {
		m = map[string]int64{}
		r.patterns[group] = m
	}
	m[v]++
	r.mu.Unlock()
}

func (r *Report) Set(key string, v any) {
	r.mu.Lock()
	r.extra[key] = v
	r.mu.Unlock()
}

func (r *Report) Note(format string, a ...any) {
	r.mu.Lock()
	if len(r.notes) < 40 {
		r.notes = append(r.notes, fmt.Sprintf(format, a...))
	}
	r.mu.Unlock()
}

func (r *Report) Inconclusive(why string) {
	r.mu.Lock()
	r.inconclusive = append(r.inconclusive, why)
	r.mu.Unlock()
}

// Violate records a refuted execution. kind is the matcher id: when it names an active entry of
// known_findings.json for this property the execution is counted as a known finding instead.
func (r *Report) Violate(kind, msg string, replay any) {
	r.mu.Lock()
	defer r.mu.Unlock()
	if _, ok := r.known[kind]; ok && kind != "" {
		r.knownHits[kind]++
		return
	}
	if len(r.violations) < 200 {
		r.violations = append(r.violations, Violation{kind, msg, replay})
	} else {
		r.counters["violations_not_listed"]++
	}
}

// IsKnown reports whether kind names an active known finding (monitors keep exploring past those).
func (r *Report) IsKnown(kind string) bool {
	r.mu.Lock()
	defer r.mu.Unlock()
	_, ok := r.known[kind]
	return ok
}

func (r *Report) NumViolations() int {
	r.mu.Lock()
	defer r.mu.Unlock()
	return len(r.violations)
}

// Finish prints the verdict lines, writes evidence and replay files, and returns the exit status.
func (r *Report) Finish() int {
	r.mu.Lock()
	defer r.mu.Unlock()
	wall := time.Since(r.start).Seconds()
	ids := make([]string, 0, len(r.knownHits))
	for id := range r.knownHits {
		ids = append(ids, id)
	}
	sort.Strings(ids)
	for _, id := range ids {
		fmt.Printf("KNOWN-FINDING: property=%s %s [%s, %d executions]\n", r.ctx.Prop, r.known[id].What, id, r.knownHits[id])
	}
	_ = os.MkdirAll(filepath.Join(OutDir(), "replay"), 0o755)
	printed := 0
	seenKinds := map[string]int{}
	for i, v := range r.violations {
		seenKinds[v.Kind]++
		if seenKinds[v.Kind] > 3 || printed >= 12 {
			continue
		}
		path := filepath.Join(OutDir(), "replay", fmt.Sprintf("%s-%s-s%d-%d.json", r.ctx.Prop, r.ctx.Tier, r.ctx.Seed, i))
		b, _ := json.MarshalIndent(map[string]any{"property": r.ctx.Prop, "kind": v.Kind, "msg": v.Msg, "seed": r.ctx.Seed, "tier": r.ctx.Tier, "witness": v.Replay}, "", " ")
		_ = os.WriteFile(path, b, 0o644)
		fmt.Printf("VIOLATION property=%s replay=%s\n  kind=%s %s\n", r.ctx.Prop, path, v.Kind, truncate(v.Msg, 600))
		printed++
	}
	if len(r.violations) > printed {
		fmt.Printf("(%d further violations not listed; kinds: %v)\n", len(r.violations)-printed, seenKinds)
	}
	status := 0
	if len(r.violations) > 0 {
		status = 1
	} else {
		if len(r.distinct) < r.MinDistinct {
			r.inconclusive = append(r.inconclusive, fmt.Sprintf("only %d distinct non-trivial cases observed (minimum %d)", len(r.distinct), r.MinDistinct))
		}
		if len(r.inconclusive) > 0 {
			status = 2
			for _, w := range r.inconclusive {
				fmt.Printf("INCONCLUSIVE property=%s %s\n", r.ctx.Prop, w)
			}
		}
	}
	if r.ctx.Replay == "" {
		cov := map[string]any{
			"evaluations":         r.evaluations.Load(),
			"distinct_nontrivial": len(r.distinct),
			"rule":                r.Rule,
			"samples":             r.samples,
			"counters":            r.counters,
		}
		if r.Exhaustive {
			cov["exhaustive"] = true
		}
		if len(r.samples) == 0 {
			cov["samples"] = []any{"(no sample recorded)"}
		}
		for k, v := range r.extra {
			cov[k] = v
		}
		for g, m := range r.patterns {
			cov["distinct_"+g] = len(m)
			if len(m) <= 64 {
				cov[g] = m
			} else {
				keys := make([]string, 0, len(m))
				for k := range m {
					keys = append(keys, k)
				}
				sort.Strings(keys)
				sub := map[string]int64{}
				for _, k := range keys[:64] {
					sub[k] = m[k]
				}
				cov[g+"_first64"] = sub
			}
		}
		if len(r.knownHits) > 0 {
			cov["known_findings_observed"] = r.knownHits
		}
		if len(r.notes) > 0 {
			cov["notes"] = r.notes
		}
		if len(r.inconclusive) > 0 {
			cov["inconclusive"] = r.inconclusive
		}
		ev := map[string]any{
			"property_id": r.ctx.Prop,
			"tier":        r.ctx.Tier,
			"seed":        r.ctx.Seed,
			"level":       r.Level,
			"coverage":    cov,
			"assumptions": r.Assumptions,
			"wall_s":      float64(int(wall*100)) / 100,
			"violations":  len(r.violations),
		}
		b, _ := json.MarshalIndent(ev, "", " ")
		_ = os.MkdirAll(filepath.Join(OutDir(), "evidence"), 0o755)
		if err := os.WriteFile(filepath.Join(OutDir(), "evidence", r.ctx.Prop+".json"), append(b, '\n'), 0o644); err != nil {
			fmt.Println("cannot write evidence:", err)
			if status == 0 {
				status = 3
			}
		}
	}
	fmt.Printf("%s %s seed=%d: evaluations=%d distinct_nontrivial=%d violations=%d known=%d wall=%.1fs status=%d\n",
		r.ctx.Prop, r.ctx.Tier, r.ctx.Seed, r.evaluations.Load(), len(r.distinct), len(r.violations), len(r.knownHits), wall, status)
	return status
}

func truncate(s string, n int) string {
	if len(s) > n {
		return s[:n] + "…"
	}
	return s
}

// Parallel runs fn(i) for i in [0,n) on the context's workers. A panic that escapes fn is a harness
// error for that case and is reported as a violation of kind "escaped-panic" with the stack
// (monitors wrap library calls themselves and classify library panics more precisely).
func Parallel(ctx *Ctx, rep *Report, n int, fn func(i int)) {
	w := ctx.Workers
	if w <= 0 {
		w = runtime.NumCPU()
	}
	var next atomic.Int64
	var wg sync.WaitGroup
	for k := 0; k < w; k++ {
		wg.Add(1)
		go func() {
			defer wg.Done()
			for {
				i := int(next.Add(1) - 1)
				if i >= n {
					return
				}
				func() {
					defer func() {
						if p := recover(); p != nil {
							rep.Violate("escaped-panic", fmt.Sprintf("case %d: panic %v\n%s", i, p, debug.Stack()), map[string]any{"case": i})
						}
					}()
					fn(i)
				}()
			}
		}()
	}
	wg.Wait()
}

// Safe runs f and converts a panic into an error carrying the stack.
func Safe(f func()) (perr *PanicError) {
	defer func() {
		if p := recover(); p != nil {
			perr = &PanicError{Value: p, Stack: string(debug.Stack())}
		}
	}()
	f()
	return nil
}

type PanicError struct {
	Value any
	Stack string
}

func (p *PanicError) Error() string { return fmt.Sprintf("panic: %v\n%s", p.Value, p.Stack) }

func EnvSeed() int64 {
	if s := os.Getenv("VERIF_SEED"); s != "" {
		if v, err := strconv.ParseInt(s, 10, 64); err == nil {
			return v
		}
	}
	return 1
}

func Hex(b []byte) string { return hex.EncodeToString(b) }
