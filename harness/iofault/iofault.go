// Package iofault provides fault-injecting and fragmenting wrappers for the io boundary.
package iofault

import (
	"errors"
	"io"
	"math/rand"
	"runtime"
)

var ErrInjectedRead = errors.New("injected read failure")
var ErrInjectedSeek = errors.New("injected seek failure")

// FragMode selects how a source delivers its bytes.
type FragMode int

const (
	Whole       FragMode = iota // as asked
	OneByte                     // one byte per Read
	Halving                     // half of what is asked (at least one)
	RandomSizes                 // seeded random fragment sizes
	DataWithEOF                 // the final fragment is returned together with io.EOF
	OneByteEOF                  // one byte per Read and the last byte together with io.EOF
)

var FragNames = map[FragMode]string{Whole: "whole", OneByte: "1-byte", Halving: "halving", RandomSizes: "random", DataWithEOF: "data+EOF", OneByteEOF: "1-byte,data+EOF"}

// Source is an in-memory io.ReadSeeker with configurable delivery and fault injection.
type Source struct {
	Data []byte
	Pos  int64
	Mode FragMode
	Rng  *rand.Rand

	// read fault: fires when a Read would deliver byte FaultAt (FaultAt < 0: none)
	FaultAt int64
	Sticky  bool
	Fired   bool
	armed   bool
	pending bool // bytes before FaultAt were delivered; the next Read returns the error

	// seek fault: the FailSeek-th Seek call (0-based) fails; <0: none
	FailSeek  int
	SeekCalls int
	SeekFired bool

	Reads int
}

func NewSource(data []byte) *Source {
	return &Source{Data: data, FaultAt: -1, FailSeek: -1, armed: true}
}

func (s *Source) Read(p []byte) (int, error) {
	s.Reads++
	if s.Fired && s.Sticky {
		return 0, ErrInjectedRead
	}
	if len(p) == 0 {
		return 0, nil
	}
	if s.Pos >= int64(len(s.Data)) {
		if s.FaultAt == int64(len(s.Data)) && s.armed && s.Pos == s.FaultAt {
			// the fault sits where end-of-file would be reported: every byte was delivered, then the source fails
			s.Fired = true
			if !s.Sticky {
				s.armed = false
			}
			return 0, ErrInjectedRead
		}
		return 0, io.EOF
	}
	n := len(p)
	switch s.Mode {
	case OneByte, OneByteEOF:
		n = 1
	case Halving:
		n = (n + 1) / 2
	case RandomSizes:
		n = 1 + s.Rng.Intn(n)
	}
	rem := int(int64(len(s.Data)) - s.Pos)
	if n > rem {
		n = rem
	}
	if s.FaultAt >= 0 && s.armed && s.Pos <= s.FaultAt && s.FaultAt < s.Pos+int64(n) {
		before := int(s.FaultAt - s.Pos)
		if before > 0 {
			// deliver the bytes in front of the faulty position first
			copy(p, s.Data[s.Pos:s.Pos+int64(before)])
			s.Pos += int64(before)
			return before, nil
		}
		s.Fired = true
		if !s.Sticky {
			s.armed = false
		}
		return 0, ErrInjectedRead
	}
	copy(p, s.Data[s.Pos:s.Pos+int64(n)])
	s.Pos += int64(n)
	if (s.Mode == DataWithEOF || s.Mode == OneByteEOF) && s.Pos == int64(len(s.Data)) {
		return n, io.EOF
	}
	return n, nil
}

func (s *Source) Seek(off int64, whence int) (int64, error) {
	idx := s.SeekCalls
	s.SeekCalls++
	if s.FailSeek >= 0 && idx == s.FailSeek {
		s.SeekFired = true
		return 0, ErrInjectedSeek
	}
	var np int64
	switch whence {
	case io.SeekStart:
		np = off
	case io.SeekCurrent:
		np = s.Pos + off
	case io.SeekEnd:
		np = int64(len(s.Data)) + off
	}
	if np < 0 {
		return 0, errors.New("seek before start")
	}
	s.Pos = np
	return np, nil
}

// NoSeek hides the Seek method of a Source (stream-only reader).
type NoSeek struct{ S *Source }

func (n NoSeek) Read(p []byte) (int, error) { return n.S.Read(p) }

// FailingReader delivers the first N bytes of Data and then fails (attachment sources).
type FailingReader struct {
	Data []byte
	N    int
	// Err is the error delivered (default ErrInjectedRead); WithData makes the read that delivers the
	// last of the N bytes return them together with the error.
	Err      error
	WithData bool
	pos      int
}

func (f *FailingReader) Read(p []byte) (int, error) {
	e := f.Err
	if e == nil {
		e = ErrInjectedRead
	}
	if f.pos >= f.N {
		return 0, e
	}
	n := len(p)
	if n > f.N-f.pos {
		n = f.N - f.pos
	}
	copy(p, f.Data[f.pos:f.pos+n])
	f.pos += n
	if f.WithData && f.pos >= f.N && n > 0 {
		return n, e
	}
	return n, nil
}

// Yielding hands the processor to other goroutines before every Read (a source on which the caller
// blocks, like a file or a socket, does the same).
type Yielding struct{ R io.Reader }

func (y Yielding) Read(p []byte) (int, error) {
	runtime.Gosched()
	return y.R.Read(p)
}
