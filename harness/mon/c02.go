package mon

import (
	"bytes"
	"fmt"
	"hash/crc32"
	"io"
	"sort"

	"github.com/foxglove/mcap/go/mcap"

	"verifharness/core"
	"verifharness/drive"
	"verifharness/gen"
	"verifharness/refmcap"
)

// readerCase draws a case whose file the Reader can open: leading magic kept, built-in compression.
func readerCase(ctx *core.Ctx, stream string, i int, flagMask int) *Case {
	c := MakeCase(ctx, stream, i)
	c.K.SkipMagic = false
	if c.K.Compression == "custom" {
		c.K.Compression = []string{"", "zstd", "lz4"}[i%3]
	}
	if flagMask >= 0 {
		// cycle through every combination of the seven summary-affecting flags
		keep := c.K.OverrideLibrary
		c.K.SetFlags(flagMask & 0xff)
		c.K.OverrideLibrary = keep
	}
	// favour multi-chunk files
	if c.K.Chunked && i%3 != 0 && c.K.ChunkSize > 4096 {
		c.K.ChunkSize = []int64{1, 50, 200, 1024}[i%4]
	}
	return c
}

func sortedKeys(ts []drive.Triple) []string {
	k := tripleKeys(ts)
	sort.Strings(k)
	return k
}

var orderNames = map[mcap.ReadOrder]string{mcap.FileOrder: "file", mcap.LogTimeOrder: "logtime", mcap.ReverseLogTimeOrder: "reverse"}

type readVariant struct {
	name  string
	opts  []mcap.ReadOpt
	order mcap.ReadOrder
}

func indexedVariants() []readVariant {
	return []readVariant{
		{"Messages()", nil, mcap.FileOrder},
		{"Messages(UsingIndex(true))", []mcap.ReadOpt{mcap.UsingIndex(true)}, mcap.FileOrder},
		{"Messages(InOrder(FileOrder))", []mcap.ReadOpt{mcap.InOrder(mcap.FileOrder)}, mcap.FileOrder},
		{"Messages(InOrder(LogTimeOrder))", []mcap.ReadOpt{mcap.InOrder(mcap.LogTimeOrder)}, mcap.LogTimeOrder},
		{"Messages(InOrder(ReverseLogTimeOrder))", []mcap.ReadOpt{mcap.InOrder(mcap.ReverseLogTimeOrder)}, mcap.ReverseLogTimeOrder},
	}
}

func checkC02Case(c *Case, rep *core.Report) {
	res := writeClean(c, rep)
	if res == nil {
		return
	}
	data := res.Bytes()
	e := expect(c)
	scan := drive.ReadMessages(bytes.NewReader(data), drive.IterOpts{Opts: []mcap.ReadOpt{mcap.UsingIndex(false)}, MetadataCB: true})
	if scan.Failed() != nil {
		rep.Count("scan_failed_cases_skipped", 1) // C01's territory
		return
	}
	// the precondition of the first clause: the configuration keeps the index and the file has one
	// (a file without any chunk has no index; the fall-back-or-error clause applies to it)
	indexed := c.K.Indexed() && res.ChunkIdx > 0
	if indexed {
		rep.Count("files_with_full_index", 1)
	} else {
		rep.Count("files_under_fallback_or_error_clause", 1)
	}
	if len(scan.Triples) > 0 {
		rep.Distinct(c.Shape.String(), c.K.String())
	}
	if d := firstDiff(e.metadata, scan.Metadata); d != "" {
		rep.Violate("metadata-callback-sequential", fmt.Sprintf("%s: metadata callback during the sequential read: %s", c.Describe(), d), c.Witness())
		return
	}
	scanKeys := tripleKeys(scan.Triples)
	scanSorted := sortedKeys(scan.Triples)
	for _, v := range indexedVariants() {
		ir := drive.ReadMessages(bytes.NewReader(data), drive.IterOpts{Opts: v.opts, MetadataCB: true, WantInfo: true})
		rep.Count("indexed_reads", 1)
		if ir.Panic != nil {
			rep.Violate("indexed-panic", fmt.Sprintf("%s: %s panicked: %v", c.Describe(), v.name, ir.Panic), c.Witness())
			return
		}
		err := ir.Failed()
		if err != nil {
			if indexed {
				rep.Violate("indexed-error", fmt.Sprintf("%s: %s failed on a fully indexed file: %v", c.Describe(), v.name, err), c.Witness())
				return
			}
			rep.Count("fallback_clause_error_returned", 1)
			continue
		}
		if !indexed {
			rep.Count("fallback_clause_data_returned", 1)
		}
		same := false
		if v.order == mcap.FileOrder {
			same = eqStrings(scanKeys, tripleKeys(ir.Triples))
		} else {
			same = eqStrings(scanSorted, sortedKeys(ir.Triples))
		}
		if !same {
			kind := "indexed-differs-from-scan"
			if !indexed {
				kind = "silent-partial-read"
				// recorded defect: chunk indexes kept, channels not repeated in the summary, no message indexes:
				// the indexed iterator knows no channel and silently drops every message
				if c.K.Chunked && !c.K.SkipChunkIndex && c.K.SkipRepeatedChannelInfos && len(ir.Triples) == 0 {
					kind = "silent-empty-read-without-summary-channels"
				}
			}
			rep.Violate(kind, fmt.Sprintf("%s: %s returned %d messages without error, the sequential scan returns %d: %s", c.Describe(), v.name, len(ir.Triples), len(scan.Triples),
				firstDiff(scanKeys, tripleKeys(ir.Triples))), c.Witness())
			return
		}
		// metadata callback in an index-based read: exactly the indexed records
		if indexed && ir.Info != nil && ir.Info.CanReadMessagesUsingIndex() {
			want := e.metadata
			if c.K.SkipMetadataIndex {
				want = nil
			}
			if d := firstDiff(want, ir.Metadata); d != "" {
				rep.Violate("metadata-callback-indexed", fmt.Sprintf("%s: %s metadata callback: %s", c.Describe(), v.name, d), c.Witness())
				return
			}
		}
	}
	// the same reads on a Reader that has already served Info(): asking for the summary first must not
	// change what a read returns (in particular not turn a fall-back scan into an empty one)
	for k, v := range []readVariant{{"Info() followed by Messages()", nil, mcap.FileOrder}, {"Info() followed by Messages(UsingIndex(false))", []mcap.ReadOpt{mcap.UsingIndex(false)}, mcap.FileOrder},
		{"Messages(UsingIndex(false)), then Info(), then the iteration", []mcap.ReadOpt{mcap.UsingIndex(false)}, mcap.FileOrder},
		{"Info() and GetMetadata() of every indexed metadata record, followed by Messages()", nil, mcap.FileOrder},
		{"Messages(UsingIndex(false)), then a second Messages() whose iterator is never read, then the iteration", []mcap.ReadOpt{mcap.UsingIndex(false)}, mcap.FileOrder}} {
		ir := drive.ReadMessages(bytes.NewReader(data), drive.IterOpts{Opts: v.opts, InfoFirst: k < 2 || k == 3, WantInfo: k == 2, MetadataFirst: k == 3, SecondIterator: k == 4})
		rep.Count("reads_after_info", 1)
		if ir.Panic != nil {
			rep.Violate("indexed-panic", fmt.Sprintf("%s: %s panicked: %v", c.Describe(), v.name, ir.Panic), c.Witness())
			return
		}
		if err := ir.Failed(); err != nil {
			if indexed || len(v.opts) > 0 {
				rep.Violate("read-after-info-error", fmt.Sprintf("%s: %s failed: %v", c.Describe(), v.name, err), c.Witness())
				return
			}
			rep.Count("fallback_clause_error_returned", 1)
			continue
		}
		if !eqStrings(scanKeys, tripleKeys(ir.Triples)) {
			rep.Violate("silent-partial-read-after-info", fmt.Sprintf("%s: %s returned %d messages without error, the sequential scan of a fresh Reader returns %d: %s", c.Describe(), v.name, len(ir.Triples), len(scan.Triples),
				firstDiff(scanKeys, tripleKeys(ir.Triples))), c.Witness())
			return
		}
	}
	// a topic selection on a file whose summary does not repeat the channel records: the index-based reader
	// cannot tell which channels carry the topic, so the read has to fall back, fail - or be complete
	if !indexed && c.K.Chunked && !c.K.SkipChunkIndex && c.K.SkipRepeatedChannelInfos && len(scan.Triples) > 0 {
		topic := ""
		for k := range c.W.Ops {
			if ch := c.W.Ops[k].Channel; ch != nil && ch.ID == scan.Triples[0].ChanID {
				topic = ch.Topic
			}
		}
		opts := []mcap.ReadOpt{mcap.WithTopics([]string{topic})}
		want := drive.ReadMessages(bytes.NewReader(data), drive.IterOpts{Opts: append([]mcap.ReadOpt{mcap.UsingIndex(false)}, opts...)})
		ir := drive.ReadMessages(bytes.NewReader(data), drive.IterOpts{Opts: opts})
		rep.Count("topic_reads_without_summary_channels", 1)
		if want.Failed() == nil && ir.Panic == nil && ir.Failed() == nil && !eqStrings(tripleKeys(want.Triples), tripleKeys(ir.Triples)) {
			kind := "silent-partial-topic-read-without-summary-channels"
			if len(ir.Triples) == 0 {
				kind = "silent-empty-topic-read-without-summary-channels"
			}
			rep.Violate(kind, fmt.Sprintf("%s: Messages(WithTopics(%q)) returned %d messages without error, the scan with the same selection returns %d", c.Describe(), topic, len(ir.Triples), len(want.Triples)), c.Witness())
			if !rep.IsKnown(kind) {
				return
			}
		}
	}
	// two iterators of ONE Reader consumed alternately, with random access in between: each must still
	// see its own complete result (they share the Reader's ReadSeeker)
	if indexed {
		ia, ib := drive.InterleavedRead(bytes.NewReader(data), []mcap.ReadOpt{mcap.UsingIndex(true)}, []mcap.ReadOpt{mcap.InOrder(mcap.LogTimeOrder)}, true)
		rep.Count("interleaved_reads", 1)
		if ia.Failed() != nil || ib.Failed() != nil {
			rep.Violate("interleaved-read-error", fmt.Sprintf("%s: two iterators of one Reader consumed alternately: %v / %v", c.Describe(), ia.Failed(), ib.Failed()), c.Witness())
			return
		}
		if !eqStrings(scanKeys, tripleKeys(ia.Triples)) || !eqStrings(scanSorted, sortedKeys(ib.Triples)) {
			rep.Violate("interleaved-read-differs", fmt.Sprintf("%s: two iterators of one Reader consumed alternately return %d and %d messages, the scan %d: %s", c.Describe(), len(ia.Triples), len(ib.Triples), len(scan.Triples),
				firstDiff(scanKeys, tripleKeys(ia.Triples))), c.Witness())
			return
		}
	}
	checkRandomAccess(c, rep, e, data)
}

// checkRandomAccess follows every attachment/metadata index entry.
func checkRandomAccess(c *Case, rep *core.Report, e *expected, data []byte) {
	var problem string
	p := core.Safe(func() {
		r, err := mcap.NewReader(bytes.NewReader(data))
		if err != nil {
			problem = "NewReader: " + err.Error()
			return
		}
		defer r.Close()
		info, err := r.Info()
		if err != nil {
			problem = "Info: " + err.Error()
			return
		}
		if !c.K.SkipAttachmentIndex && len(info.AttachmentIndexes) != len(e.attachments) {
			problem = fmt.Sprintf("%d attachment index entries for %d attachments", len(info.AttachmentIndexes), len(e.attachments))
			return
		}
		for i, ai := range info.AttachmentIndexes {
			ar, err := r.GetAttachmentReader(ai.Offset)
			if err != nil {
				problem = fmt.Sprintf("GetAttachmentReader(entry %d, offset %d): %v", i, ai.Offset, err)
				return
			}
			d, err := io.ReadAll(ar.Data())
			if err != nil {
				problem = fmt.Sprintf("attachment %d data: %v", i, err)
				return
			}
			var pc, cc uint32
			var err1, err2 error
			if i%2 == 0 {
				pc, err1 = ar.ParsedCRC()
				cc, err2 = ar.ComputedCRC()
			} else {
				cc, err2 = ar.ComputedCRC()
				pc, err1 = ar.ParsedCRC()
			}
			if err1 != nil || err2 != nil {
				problem = fmt.Sprintf("attachment %d crc: %v %v", i, err1, err2)
				return
			}
			got := drive.AttachmentCanon(&refmcap.Attachment{LogTime: ar.LogTime, CreateTime: ar.CreateTime, Name: ar.Name, MediaType: ar.MediaType, Data: d})
			if i >= len(e.attachments) || got != e.attachments[i] {
				problem = fmt.Sprintf("attachment reached through index entry %d differs from the %d-th attachment written", i, i)
				return
			}
			if pc != e.attCRC[i] || cc != pc {
				problem = fmt.Sprintf("attachment %d via index: stored crc %08x computed %08x want %08x", i, pc, cc, e.attCRC[i])
				return
			}
			if ai.DataSize != uint64(len(d)) || ai.Name != ar.Name || ai.MediaType != ar.MediaType || ai.LogTime != ar.LogTime || ai.CreateTime != ar.CreateTime {
				problem = fmt.Sprintf("attachment index entry %d fields differ from the record it points to", i)
				return
			}
			rep.Count("attachments_fetched_via_index", 1)
		}
		if !c.K.SkipMetadataIndex && len(info.MetadataIndexes) != len(e.metadata) {
			problem = fmt.Sprintf("%d metadata index entries for %d metadata records", len(info.MetadataIndexes), len(e.metadata))
			return
		}
		for i, mi := range info.MetadataIndexes {
			md, err := r.GetMetadata(mi.Offset)
			if err != nil {
				problem = fmt.Sprintf("GetMetadata(entry %d, offset %d): %v", i, mi.Offset, err)
				return
			}
			if i >= len(e.metadata) || drive.CanonMetadata(md) != e.metadata[i] || md.Name != mi.Name {
				problem = fmt.Sprintf("metadata reached through index entry %d differs from the %d-th metadata record written", i, i)
				return
			}
			rep.Count("metadata_fetched_via_index", 1)
		}
	})
	if p != nil {
		rep.Violate("random-access-panic", fmt.Sprintf("%s: %v", c.Describe(), p), c.Witness())
		return
	}
	if problem != "" {
		rep.Violate("random-access", fmt.Sprintf("%s: %s", c.Describe(), problem), c.Witness())
	}
}

var _ = crc32.ChecksumIEEE

func c02Case(ctx *core.Ctx, i int) *Case {
	mask := -1
	if i%2 == 0 {
		mask = (i / 2) % 256
	}
	return readerCase(ctx, "c02", i, mask)
}

func RunC02(ctx *core.Ctx, rep *core.Report) {
	rep.Rule = "seeded (workload, configuration) pairs written by the real Writer (built-in compressions, magic kept); every second case cycles through all 256 combinations of the eight Skip* flags. " +
		"For each file the sequential scan is compared with Messages() in five spellings (default, UsingIndex(true), three explicit orders): element-wise in file order, as multisets in time order; " +
		"for configurations outside the indexed-read precondition the fall-back-or-error clause is applied. Two iterators obtained from one Reader are consumed alternately (with random access in between) and each compared with the scan. Every attachment/metadata index entry is followed with GetAttachmentReader/GetMetadata; metadata callbacks are compared in both modes. " +
		"distinct_nontrivial counts distinct (shape, configuration) pairs whose scan returns at least one message."
	rep.Assumptions = []string{"the sequential scan itself is judged by C01", "time-order correctness is judged by C03; here only the multiset"}
	n := ctx.Pick(1600, 40000)
	core.Parallel(ctx, rep, n, func(i int) {
		rep.Eval(1)
		c := c02Case(ctx, i)
		if i%400 == 0 {
			rep.Sample(map[string]any{"case": i, "shape": c.Shape.String(), "config": c.K.String(), "indexed_precondition": c.K.Indexed()})
		}
		checkC02Case(c, rep)
	})
}

var _ = gen.Config{}
