// Package mon holds one monitor (oracle + workload driver) per property.
package mon

import (
	"bytes"
	"fmt"
	"math/rand"

	"verifharness/core"
	"verifharness/drive"
	"verifharness/gen"
	"verifharness/refmcap"
)

// Case is one (workload, configuration) pair with a description for evidence and replay.
type Case struct {
	Index int
	Seed  int64
	Class int
	Shape gen.Shape
	W     *gen.Workload
	K     gen.Config
}

func (c *Case) Witness() map[string]any {
	return map[string]any{"case": c.Index, "seed": c.Seed, "class": c.Class, "shape": c.Shape.String(), "config": c.K.String(), "config_struct": c.K}
}

func (c *Case) Describe() string {
	return fmt.Sprintf("case %d shape=%s config=%s", c.Index, c.Shape, c.K)
}

// classFor draws the size class: mostly tiny, some medium, few large.
func classFor(r *rand.Rand) int {
	switch x := r.Intn(100); {
	case x < 68:
		return 0
	case x < 94:
		return 1
	case x < 99:
		return 2
	default:
		return 3 // records above 1 MiB
	}
}

// MakeCase deterministically builds case i of a property's write-family run.
func MakeCase(ctx *core.Ctx, stream string, i int) *Case {
	r := gen.Rng(ctx.Seed, stream, i)
	c := &Case{Index: i, Seed: ctx.Seed}
	c.Class = classFor(r)
	c.Shape = gen.RandShape(r, c.Class)
	c.W = gen.RandWorkload(r, c.Shape)
	c.K = gen.RandConfig(r)
	// cost bound: the "better"/"best" zstd encoders clear tens of megabytes per chunk flush, so they are
	// only combined with workloads that produce a handful of chunks
	if c.K.Chunked && c.K.Compression == "zstd" && c.K.Level >= 2 && c.K.ChunkSize != 0 && c.K.ChunkSize < 4096 && (c.Shape.Messages > 12 || r.Intn(6) != 0) {
		c.K.Level = r.Intn(2)
	}
	return c
}

// crossProductCase is case j of the complete cross product of the ten flags x five container kinds
// on a fixed medium workload (thorough tier of C01/C05/C06/C08).
func crossProductCase(ctx *core.Ctx, j int) *Case {
	r := gen.Rng(ctx.Seed, "cross", 0)
	c := &Case{Index: 1_000_000 + j, Seed: ctx.Seed, Class: 1}
	c.Shape = gen.Shape{Schemas: 3, Channels: 5, Messages: 40, Attachments: 2, Metadata: 2, MaxPayload: 200, TimeMode: "smallrand", MaxLongStr: 100, ManyMapKeys: 4, Rewrites: true}
	c.W = gen.RandWorkload(r, c.Shape)
	kinds := []struct {
		chunked bool
		comp    string
	}{{false, ""}, {true, ""}, {true, "zstd"}, {true, "lz4"}, {true, "custom"}}
	k := kinds[j/1024]
	c.K = gen.Config{Chunked: k.chunked, Compression: k.comp, ChunkSize: 300, IncludeCRC: j%2 == 0}
	c.K.SetFlags(j % 1024)
	return c
}

// writeFamilyCases returns the number of random cases and cross-product cases for the tier.
func writeFamilyCases(ctx *core.Ctx, quick, thorough int) (n, cross int) {
	if ctx.Thorough() {
		return thorough, 5 * 1024
	}
	return quick, 0
}

func caseAt(ctx *core.Ctx, stream string, i, n int) *Case {
	if i < n {
		return MakeCase(ctx, stream, i)
	}
	return crossProductCase(ctx, i-n)
}

// writeClean executes the workload without faults and reports any writer-side failure.
func writeClean(c *Case, rep *core.Report) *drive.WriteResult {
	res := drive.RunWriter(c.W, c.K, drive.NewSink(), nil)
	if res.NewErr != nil {
		rep.Violate("writer-new-failed", fmt.Sprintf("%s: NewWriter failed on a legal configuration: %v", c.Describe(), res.NewErr), c.Witness())
		return nil
	}
	if f := res.FirstErr(); f != nil {
		kind := "writer-call-failed"
		msg := fmt.Sprintf("%s: call %s(op %d) failed on a legal sequence: %v", c.Describe(), f.Kind, f.Op, f.Err)
		if f.Panic != nil {
			kind = "writer-panic"
			msg = fmt.Sprintf("%s: call %s(op %d) panicked: %v", c.Describe(), f.Kind, f.Op, f.Panic)
		}
		rep.Violate(kind, msg, c.Witness())
		return nil
	}
	if res.ProbesIssued > 0 {
		rep.Count("refused_message_probes_issued", int64(res.ProbesIssued))
		rep.Count("refused_message_probes_not_refused", int64(res.ProbesAccepted))
	}
	return res
}

// decodeRef decodes writer output with the reference decoder.
func decodeRef(c *Case, data []byte) (*refmcap.File, error) {
	return refmcap.Decode(data, &refmcap.DecodeOptions{SkipMagic: c.K.SkipMagic, Custom: drive.RefCustom})
}

// withMagic prepends the magic when the writer was told to skip it (the Reader has no SkipMagic option).
func withMagic(c *Case, data []byte) []byte {
	if !c.K.SkipMagic {
		return data
	}
	return append(append([]byte(nil), refmcap.Magic...), data...)
}

func firstDiff(want, got []string) string {
	n := len(want)
	if len(got) < n {
		n = len(got)
	}
	for i := 0; i < n; i++ {
		if want[i] != got[i] {
			return fmt.Sprintf("first difference at index %d: want %s, got %s (lengths %d/%d)", i, drive.Describe(want[i]), drive.Describe(got[i]), len(want), len(got))
		}
	}
	if len(want) != len(got) {
		return fmt.Sprintf("length %d, want %d; common prefix equal", len(got), len(want))
	}
	return ""
}

func eqStrings(a, b []string) bool {
	if len(a) != len(b) {
		return false
	}
	for i := range a {
		if a[i] != b[i] {
			return false
		}
	}
	return true
}

var _ = bytes.Equal
