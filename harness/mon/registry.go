package mon

import (
	"encoding/hex"
	"encoding/json"
	"fmt"
	"strings"
	"verifharness/gen"

	"verifharness/core"
)

type Monitor struct {
	Run    func(ctx *core.Ctx, rep *core.Report)
	Replay func(ctx *core.Ctx, rep *core.Report, witness map[string]any)
}

var Registry = map[string]Monitor{}

func init() {
	Registry["C01"] = Monitor{Run: RunC01, Replay: replayWriteFamily(checkC01Case)}
}

func witnessInt(w map[string]any, key string) (int, bool) {
	v, ok := w[key]
	if !ok {
		return 0, false
	}
	f, ok := v.(float64)
	return int(f), ok
}

// replayWriteFamily rebuilds the case named by the witness and applies one oracle to it.
func replayWriteFamily(check func(c *Case, rep *core.Report)) func(ctx *core.Ctx, rep *core.Report, w map[string]any) {
	return func(ctx *core.Ctx, rep *core.Report, w map[string]any) {
		idx, ok := witnessInt(w, "case")
		if !ok {
			rep.Inconclusive("witness has no case index")
			return
		}
		var c *Case
		if idx >= 1_000_000 {
			c = crossProductCase(ctx, idx-1_000_000)
		} else {
			c = MakeCase(ctx, "write", idx)
		}
		fmt.Println("replaying", c.Describe())
		rep.Eval(1)
		check(c, rep)
	}
}

func init() {
	Registry["C05"] = Monitor{Run: RunC05, Replay: replayWriteFamily(checkC05Case)}
	Registry["C06"] = Monitor{Run: RunC06, Replay: replayWriteFamily(checkC06Case)}
	Registry["C08"] = Monitor{Run: RunC08, Replay: func(ctx *core.Ctx, rep *core.Report, w map[string]any) {
		idx, _ := witnessInt(w, "case")
		if idx >= 2_000_000 {
			rep.Eval(1)
			checkC08Case(targetedC08Case(ctx, idx-2_000_000), rep)
			return
		}
		replayWriteFamily(checkC08Case)(ctx, rep, w)
	}}
}

func init() {
	Registry["C17"] = Monitor{Run: RunC17, Replay: func(ctx *core.Ctx, rep *core.Report, w map[string]any) { RunC17(ctx, rep) }}
}

func replayIndexed(mk func(ctx *core.Ctx, i int) *Case, check func(c *Case, rep *core.Report)) func(ctx *core.Ctx, rep *core.Report, w map[string]any) {
	return func(ctx *core.Ctx, rep *core.Report, w map[string]any) {
		idx, ok := witnessInt(w, "case")
		if !ok {
			rep.Inconclusive("witness has no case index")
			return
		}
		c := mk(ctx, idx)
		fmt.Println("replaying", c.Describe())
		rep.Eval(1)
		check(c, rep)
	}
}

func init() {
	Registry["C02"] = Monitor{Run: RunC02, Replay: replayIndexed(c02Case, checkC02Case)}
}

func init() {
	Registry["C04"] = Monitor{Run: RunC04, Replay: func(ctx *core.Ctx, rep *core.Report, w map[string]any) {
		idx, _ := witnessInt(w, "case")
		rep.Eval(1)
		checkC04Case(c04Case(ctx, idx), rep, gen.Rng(ctx.Seed, "c04w", idx), ctx.Pick(5, 9))
	}}
}

func init() {
	Registry["C03"] = Monitor{Run: RunC03, Replay: func(ctx *core.Ctx, rep *core.Report, w map[string]any) {
		rep.Eval(1)
		if id, ok := witnessInt(w, "small_file"); ok {
			checkSmallFile(id, rep, true)
			return
		}
		if id, ok := witnessInt(w, "random_file"); ok {
			checkC03Random(ctx, id, rep)
		}
		if id, ok := witnessInt(w, "structured_file"); ok {
			checkC03Structured(ctx, id, rep)
		}
	}}
}

func init() {
	Registry["C12"] = Monitor{Run: RunC12, Replay: func(ctx *core.Ctx, rep *core.Report, w map[string]any) {
		idx, _ := witnessInt(w, "case")
		var c *Case
		if idx >= 4_000_000 {
			c = smallContent(ctx, idx-4_000_000)
		} else {
			c = c12Content(ctx, idx)
		}
		var l Layout
		b, _ := json.Marshal(w["layout"])
		if err := json.Unmarshal(b, &l); err != nil {
			rep.Inconclusive("witness layout unreadable: " + err.Error())
			return
		}
		runLayout(c, l, expect(c), rep, "replay")
	}}
}

func init() {
	Registry["C11"] = Monitor{Run: RunC11, Replay: func(ctx *core.Ctx, rep *core.Report, w map[string]any) {
		idx, _ := witnessInt(w, "c11_case")
		rep.Eval(1)
		checkC11Case(ctx, idx, rep)
	}}
}

func init() {
	Registry["C09"] = Monitor{Run: RunC09, Replay: func(ctx *core.Ctx, rep *core.Report, w map[string]any) {
		idx, _ := witnessInt(w, "c09_case")
		checkC09Case(ctx, idx, rep)
	}}
}

func init() {
	Registry["C15"] = Monitor{Run: RunC15, Replay: func(ctx *core.Ctx, rep *core.Report, w map[string]any) {
		idx, _ := witnessInt(w, "c15_case")
		checkC15Case(ctx, idx, rep)
	}}
}

func init() {
	Registry["C14"] = Monitor{Run: RunC14, Replay: func(ctx *core.Ctx, rep *core.Report, w map[string]any) {
		idx, _ := witnessInt(w, "c14_case")
		checkC14Case(ctx, idx, rep)
	}}
}

func init() {
	Registry["C07"] = Monitor{Run: RunC07, Replay: func(ctx *core.Ctx, rep *core.Report, w map[string]any) {
		idx, _ := witnessInt(w, "c07_case")
		checkC07Case(ctx, idx, rep)
	}}
}

func init() {
	Registry["C10"] = Monitor{Run: RunC10, Replay: func(ctx *core.Ctx, rep *core.Report, w map[string]any) {
		hx, _ := w["input_hex"].(string)
		data, err := hex.DecodeString(strings.TrimSuffix(hx, "...(truncated)"))
		if err != nil {
			rep.Inconclusive("witness input unreadable")
			return
		}
		kind, _ := w["input_kind"].(string)
		items := []WorkItem{{ID: 0, Kind: kind, Data: data, Aux: data}}
		if s, _ := w["stream"].(string); s == "limits" {
			runLimitsStage(ctx, rep, items)
			return
		}
		judgeC10(ctx, rep, items, runIsolated(ctx, "c10", items, 1, 1, rep), "replay")
	}}
}

func init() {
	Registry["C18"] = Monitor{Run: RunC18, Replay: func(ctx *core.Ctx, rep *core.Report, w map[string]any) {
		if i, ok := witnessInt(w, "bag_case"); ok {
			checkBagCase(ctx, i, rep)
			return
		}
		if i, ok := witnessInt(w, "db3_case"); ok {
			checkDB3Case(ctx, i, rep)
			return
		}
		hx, _ := w["input_hex"].(string)
		data, err := hex.DecodeString(strings.TrimSuffix(hx, "...(truncated)"))
		if err != nil {
			rep.Inconclusive("witness input unreadable")
			return
		}
		kind, _ := w["corrupt_kind"].(string)
		items := []WorkItem{{ID: 0, Kind: kind, Data: data}}
		judgeC18Corrupt(rep, items, runIsolated(ctx, "c18", items, 1, 1, rep))
	}}
}

func init() {
	Registry["C13"] = Monitor{Run: RunC13, Replay: func(ctx *core.Ctx, rep *core.Report, w map[string]any) {
		idx, ok := witnessInt(w, "case")
		if !ok {
			RunC13(ctx, rep)
			return
		}
		c := c13Case(ctx.Seed, idx)
		a, e1 := hashOutput(c, false)
		b, e2 := hashOutput(c, true)
		rep.Eval(1)
		if e1 != nil || e2 != nil || a != b {
			rep.Violate("map-order-dependence", fmt.Sprintf("%s: %s vs %s (%v %v)", c.Describe(), a, b, e1, e2), c.Witness())
		}
	}}
}

func init() {
	Registry["C16"] = Monitor{Run: RunC16, Replay: func(ctx *core.Ctx, rep *core.Report, w map[string]any) { RunC16(ctx, rep) }}
}

func init() {
	Registry["C20"] = Monitor{Run: RunC20, Replay: func(ctx *core.Ctx, rep *core.Report, w map[string]any) {
		if i, ok := witnessInt(w, "c20_file"); ok {
			checkC20Indexed(ctx, i, rep)
			return
		}
		RunC20(ctx, rep)
	}}
}
