package mon

import (
	"fmt"
	"math/rand"

	"verifharness/drive"
	"verifharness/gen"
	"verifharness/refmcap"
)

// Layout describes how the reference encoder lays one logical content out.
type Layout struct {
	Chunked      bool
	Cuts         []bool   // Cuts[i]: start a new chunk before message i (i>=1); len = number of messages
	Compressions []string // cycled over chunks
	EmptyChunks  int      // 0 none; 1 insert chunks without any record; 2 insert chunks holding only schema/channel copies
	// Placement of schema/channel records: 0 where the workload wrote them (inside the open chunk),
	// 1 all at top level before the first chunk, 2 immediately before first use, 3 repeated in every chunk that uses them
	Placement              int
	Midx                   refmcap.MidxMode
	SummaryOrder           []byte // opcodes, in emission order; absent = group omitted
	EmptyCMC               bool   // statistics with empty channel_message_counts
	Offsets                bool
	NoDataCRC              bool
	NoSummaryCRC           bool
	NoChunkCRC             bool
	CloseChunkAtAttachment bool // end the open chunk before an attachment/metadata record (else the record is emitted ahead of the open chunk)
}

func (l Layout) String() string {
	nc := 0
	for _, c := range l.Cuts {
		if c {
			nc++
		}
	}
	return fmt.Sprintf("chunked=%v cuts=%d comp=%v empty=%d place=%d midx=%d summary=%x emptycmc=%v off=%v crc=%v/%v/%v closeAtt=%v",
		l.Chunked, nc, l.Compressions, l.EmptyChunks, l.Placement, l.Midx, l.SummaryOrder, l.EmptyCMC, l.Offsets, !l.NoDataCRC, !l.NoSummaryCRC, !l.NoChunkCRC, l.CloseChunkAtAttachment)
}

var allSummaryOps = []byte{refmcap.OpSchema, refmcap.OpChannel, refmcap.OpStatistics, refmcap.OpChunkIndex, refmcap.OpAttachmentIndex, refmcap.OpMetadataIndex}

// BuildPlan lays the workload out. The logical content (messages in order with their channel/schema,
// attachments in order, metadata in order) is the same for every layout.
func BuildPlan(w *gen.Workload, l Layout) *refmcap.Plan {
	p := &refmcap.Plan{Header: w.Header, SummaryOffsets: l.Offsets, NoDataCRC: l.NoDataCRC, NoSummaryCRC: l.NoSummaryCRC, Custom: drive.RefCustomEnc}
	schemas := w.SchemaByID()
	channels := w.ChannelByID()
	var cur *refmcap.ChunkPlan
	nChunks := 0
	inChunkS := map[uint16]bool{}
	inChunkC := map[uint16]bool{}
	emittedS := map[uint16]bool{}
	emittedC := map[uint16]bool{}
	newChunk := func() *refmcap.ChunkPlan {
		comp := ""
		if len(l.Compressions) > 0 {
			comp = l.Compressions[nChunks%len(l.Compressions)]
		}
		nChunks++
		inChunkS = map[uint16]bool{}
		inChunkC = map[uint16]bool{}
		return &refmcap.ChunkPlan{Compression: comp, Midx: l.Midx, ZeroCRC: l.NoChunkCRC}
	}
	flush := func() {
		if cur != nil {
			p.Data = append(p.Data, refmcap.Elem{Chunk: cur})
			cur = nil
		}
	}
	emit := func(it refmcap.Item) {
		if l.Chunked {
			if cur == nil {
				cur = newChunk()
			}
			cur.Items = append(cur.Items, it)
		} else {
			it := it
			p.Data = append(p.Data, refmcap.Elem{Item: &it})
		}
	}
	emitTop := func(it refmcap.Item) {
		it2 := it
		p.Data = append(p.Data, refmcap.Elem{Item: &it2})
	}
	if l.Placement == 1 {
		for _, it := range w.Ops {
			if it.Schema != nil && !emittedS[it.Schema.ID] {
				emittedS[it.Schema.ID] = true
				emitTop(it)
			}
		}
		for _, it := range w.Ops {
			if it.Channel != nil && !emittedC[it.Channel.ID] {
				emittedC[it.Channel.ID] = true
				emitTop(it)
			}
		}
	}
	ensure := func(chID uint16) { // placements 2 and 3: put the channel (and its schema) right before use
		ch := channels[chID]
		needS := ch.SchemaID != 0
		if l.Placement == 3 && l.Chunked {
			if needS && !inChunkS[ch.SchemaID] {
				inChunkS[ch.SchemaID] = true
				emit(refmcap.Item{Schema: schemas[ch.SchemaID]})
			}
			if !inChunkC[chID] {
				inChunkC[chID] = true
				emit(refmcap.Item{Channel: ch})
			}
			return
		}
		if needS && !emittedS[ch.SchemaID] {
			emittedS[ch.SchemaID] = true
			emit(refmcap.Item{Schema: schemas[ch.SchemaID]})
		}
		if !emittedC[chID] {
			emittedC[chID] = true
			emit(refmcap.Item{Channel: ch})
		}
	}
	mi := 0
	var pendingTop []refmcap.Item
	for _, it := range w.Ops {
		switch {
		case it.Schema != nil, it.Channel != nil:
			if l.Placement == 0 {
				emit(it)
				if it.Schema != nil {
					emittedS[it.Schema.ID] = true
				} else {
					emittedC[it.Channel.ID] = true
				}
			}
		case it.Message != nil:
			if l.Chunked && mi > 0 && mi < len(l.Cuts) && l.Cuts[mi] {
				flush()
				switch l.EmptyChunks {
				case 1:
					if mi%2 == 0 {
						p.Data = append(p.Data, refmcap.Elem{Chunk: newChunk()})
					}
				case 2:
					if mi%2 == 0 {
						c := newChunk()
						ch := channels[it.Message.ChannelID]
						if ch.SchemaID != 0 {
							c.Items = append(c.Items, refmcap.Item{Schema: schemas[ch.SchemaID]})
						}
						c.Items = append(c.Items, refmcap.Item{Channel: ch})
						p.Data = append(p.Data, refmcap.Elem{Chunk: c})
					}
				}
			}
			if l.Placement >= 2 {
				ensure(it.Message.ChannelID)
			}
			emit(it)
			mi++
		default: // attachment, metadata
			if l.Chunked && l.CloseChunkAtAttachment {
				flush()
				emitTop(it)
			} else if l.Chunked && cur != nil {
				// the Go writer's behaviour: the record goes out ahead of the chunk that is still open.
				// Emitting it before the open chunk means inserting before the pending chunk element.
				pendingTop = append(pendingTop, it)
				// flush pending top-level records immediately in front of the open chunk
				for _, t := range pendingTop {
					emitTop(t)
				}
				pendingTop = nil
			} else {
				emitTop(it)
			}
		}
	}
	flush()
	// channels/schemas never used by a message still belong to the content under placements 2/3
	if l.Placement >= 2 {
		for _, it := range w.Ops {
			if it.Schema != nil && !emittedS[it.Schema.ID] && !anyChunkHas(p, it.Schema.ID, true) {
				emittedS[it.Schema.ID] = true
				emit(it)
			}
		}
		for _, it := range w.Ops {
			if it.Channel != nil && !emittedC[it.Channel.ID] && !anyChunkHas(p, it.Channel.ID, false) {
				emittedC[it.Channel.ID] = true
				// its schema must precede it
				if s := it.Channel.SchemaID; s != 0 && !emittedS[s] && !anyChunkHas(p, s, true) {
					emittedS[s] = true
					emit(refmcap.Item{Schema: schemas[s]})
				}
				emit(it)
			}
		}
		flush()
	}
	for _, op := range l.SummaryOrder {
		g := refmcap.SummaryGroup{Op: op}
		if op == refmcap.OpStatistics {
			g.EmptyCMC = l.EmptyCMC
		}
		p.Summary = append(p.Summary, g)
	}
	return p
}

func anyChunkHas(p *refmcap.Plan, id uint16, schema bool) bool {
	for _, e := range p.Data {
		var items []refmcap.Item
		if e.Chunk != nil {
			items = e.Chunk.Items
		} else if e.Item != nil {
			items = []refmcap.Item{*e.Item}
		}
		for _, it := range items {
			if schema && it.Schema != nil && it.Schema.ID == id {
				return true
			}
			if !schema && it.Channel != nil && it.Channel.ID == id {
				return true
			}
		}
	}
	return false
}

// RandLayout draws a layout for a workload with nm messages.
func RandLayout(r *rand.Rand, nm int, indexed bool) Layout {
	l := Layout{Chunked: indexed || r.Intn(4) != 0, Cuts: make([]bool, nm), Placement: r.Intn(4), Offsets: r.Intn(3) != 0,
		NoDataCRC: r.Intn(4) == 0, NoSummaryCRC: r.Intn(4) == 0, NoChunkCRC: r.Intn(4) == 0, CloseChunkAtAttachment: r.Intn(2) == 0, EmptyChunks: r.Intn(3)}
	density := []int{1, 2, 4, 8, 1000}[r.Intn(5)]
	for i := range l.Cuts {
		l.Cuts[i] = r.Intn(density) == 0
	}
	switch r.Intn(4) {
	case 0:
		l.Compressions = []string{""}
	case 1:
		l.Compressions = []string{"zstd"}
	case 2:
		l.Compressions = []string{"lz4"}
	default:
		l.Compressions = []string{"", "zstd", "lz4"}
	}
	l.Midx = refmcap.MidxMode(r.Intn(3))
	// summary: a random permutation of a random subset
	perm := r.Perm(len(allSummaryOps))
	for _, i := range perm {
		op := allSummaryOps[i]
		keep := r.Intn(4) != 0
		if indexed && (op == refmcap.OpSchema || op == refmcap.OpChannel || op == refmcap.OpChunkIndex) {
			keep = true
		}
		if keep {
			l.SummaryOrder = append(l.SummaryOrder, op)
		}
	}
	// spec: chunk index records require the schema and channel records in the summary
	if summaryIndex(l.SummaryOrder, refmcap.OpChunkIndex) >= 0 {
		for _, op := range []byte{refmcap.OpSchema, refmcap.OpChannel} {
			if summaryIndex(l.SummaryOrder, op) < 0 {
				at := r.Intn(len(l.SummaryOrder) + 1)
				l.SummaryOrder = append(l.SummaryOrder[:at], append([]byte{op}, l.SummaryOrder[at:]...)...)
			}
		}
	}
	// the spec's only ordering rule: channel records before a statistics record that carries per-channel counts
	si, ci := -1, -1
	for i, op := range l.SummaryOrder {
		if op == refmcap.OpStatistics {
			si = i
		}
		if op == refmcap.OpChannel {
			ci = i
		}
	}
	if si >= 0 && (ci < 0 || si < ci) {
		l.EmptyCMC = true
	}
	return l
}
