package mon

import (
	"bytes"
	"encoding/hex"
	"encoding/json"
	"fmt"
	"io"
	"os"
	"os/exec"
	"path/filepath"
	"sort"
	"strconv"

	"github.com/foxglove/mcap/go/mcap"

	"verifharness/core"
	"verifharness/drive"
	"verifharness/gen"
	"verifharness/refmcap"
)

func runPython(ctx *core.Ctx, mode string, spec any, dir, tag string) ([]map[string]any, error) {
	specPath := filepath.Join(dir, tag+"-spec.json")
	outPath := filepath.Join(dir, tag+"-out.json")
	b, _ := json.Marshal(spec)
	if err := os.WriteFile(specPath, b, 0o644); err != nil {
		return nil, err
	}
	cmd := exec.Command("python3", filepath.Join(core.VerifDir, "py", "interop.py"), mode, specPath, outPath)
	if out, err := cmd.CombinedOutput(); err != nil {
		return nil, fmt.Errorf("interop.py %s: %v: %s", mode, err, tail(string(out), 500))
	}
	ob, err := os.ReadFile(outPath)
	if err != nil {
		return nil, err
	}
	var res []map[string]any
	if err := json.Unmarshal(ob, &res); err != nil {
		return nil, err
	}
	return res, nil
}

// ---- Go -> Python

func c16GoCase(ctx *core.Ctx, i int) *Case {
	r := gen.Rng(ctx.Seed, "c16go", i)
	c := &Case{Index: i, Seed: ctx.Seed}
	c.Class = 0
	if r.Intn(4) == 0 {
		c.Class = 1
	}
	c.Shape = gen.RandShape(r, c.Class)
	c.Shape.UTF8Only = true
	if c.Shape.MaxLongStr > 400 {
		c.Shape.MaxLongStr = 400
	}
	if c.Shape.Channels == 0 {
		c.Shape.Channels = 1
	}
	c.W = gen.RandWorkload(r, c.Shape)
	c.K = gen.RandConfig(r)
	c.K.Compression = ""
	c.K.SkipMagic = false
	if c.K.Chunked && c.K.ChunkSize > 4096 && r.Intn(2) == 0 {
		c.K.ChunkSize = []int64{1, 60, 300}[r.Intn(3)]
	}
	return c
}

func jsStr(v any) string {
	s, _ := v.(string)
	return s
}

func jsU64(v any) uint64 {
	n, _ := strconv.ParseUint(jsStr(v), 10, 64)
	return n
}

func jsKV(v any) []refmcap.KV {
	m, _ := v.(map[string]any)
	var out []refmcap.KV
	for k, x := range m {
		out = append(out, refmcap.KV{K: k, V: jsStr(x)})
	}
	return gen.SortedKV(out)
}

func jsBytes(v any) []byte {
	b, _ := hex.DecodeString(jsStr(v))
	return b
}

func pySchemaCanon(v any) string {
	m, ok := v.(map[string]any)
	if !ok || m == nil {
		return "nil-schema"
	}
	return drive.CanonSchemaR(&refmcap.Schema{ID: uint16(m["id"].(float64)), Name: jsStr(m["name"]), Encoding: jsStr(m["encoding"]), Data: jsBytes(m["data"])})
}

func pyChannelCanon(v any) string {
	m, _ := v.(map[string]any)
	if m == nil {
		return "nil-channel"
	}
	return drive.CanonChannelR(&refmcap.Channel{ID: uint16(m["id"].(float64)), SchemaID: uint16(m["schema_id"].(float64)), Topic: jsStr(m["topic"]), MessageEncoding: jsStr(m["message_encoding"]), Metadata: jsKV(m["metadata"])})
}

func pyMessageCanon(v any) (string, uint64) {
	m, _ := v.(map[string]any)
	if m == nil {
		return "nil-message", 0
	}
	lt := jsU64(m["log_time"])
	return drive.CanonMessageR(&refmcap.Message{ChannelID: uint16(m["channel_id"].(float64)), Sequence: uint32(m["sequence"].(float64)), LogTime: lt, PublishTime: jsU64(m["publish_time"]), Data: jsBytes(m["data"])}), lt
}

// judgePythonDump compares one Python reader's dump with the call log. which names what is compared.
func judgePythonDump(c *Case, e *expected, d map[string]any, reader string, cmpMessages, cmpAttachments, cmpMetadata, cmpStats bool) string {
	if d == nil {
		return reader + ": no result"
	}
	if errs := jsStr(d["error"]); errs != "" {
		return fmt.Sprintf("%s reader failed: %s", reader, errs)
	}
	h, _ := d["header"].(map[string]any)
	if h == nil || jsStr(h["profile"]) != c.W.Header.Profile || jsStr(h["library"]) != drive.ExpectedLibrary(c.K, c.W.Header.Library) {
		return fmt.Sprintf("%s: header %v, written profile %q library %q", reader, h, c.W.Header.Profile, drive.ExpectedLibrary(c.K, c.W.Header.Library))
	}
	if cmpMessages {
		ms, _ := d["messages_file_order"].([]any)
		var got []string
		for _, t := range ms {
			tr, _ := t.([]any)
			if len(tr) != 3 {
				return reader + ": malformed triple"
			}
			mc, _ := pyMessageCanon(tr[2])
			got = append(got, pySchemaCanon(tr[0])+"|"+pyChannelCanon(tr[1])+"|"+mc)
		}
		if df := firstDiff(tripleKeys(e.triples), got); df != "" {
			return fmt.Sprintf("%s: messages in file order differ from what Go wrote: %s", reader, df)
		}
		lt, _ := d["messages_log_time"].([]any)
		if len(lt) != len(e.triples) {
			return fmt.Sprintf("%s: log-time-ordered read returned %d messages, %d written", reader, len(lt), len(e.triples))
		}
		var prev uint64
		var gotIDs, wantIDs []string
		for i, x := range lt {
			row, _ := x.([]any)
			if len(row) != 3 {
				return reader + ": malformed log-time row"
			}
			t := jsU64(row[0])
			if i > 0 && t < prev {
				return fmt.Sprintf("%s: log-time-ordered read is not sorted at position %d (%d after %d)", reader, i, t, prev)
			}
			prev = t
			gotIDs = append(gotIDs, fmt.Sprintf("%d/%d/%d", t, uint32(row[1].(float64)), uint16(row[2].(float64))))
		}
		for _, t := range e.triples {
			wantIDs = append(wantIDs, fmt.Sprintf("%d/%d/%d", t.LogTime, t.Seq, t.ChanID))
		}
		sort.Strings(gotIDs)
		sort.Strings(wantIDs)
		if df := firstDiffPlain(wantIDs, gotIDs); df != "" {
			return fmt.Sprintf("%s: log-time-ordered read returns a different set of messages: %s", reader, df)
		}
	}
	if cmpAttachments {
		as, _ := d["attachments"].([]any)
		var got []string
		for _, a := range as {
			m, _ := a.(map[string]any)
			got = append(got, drive.AttachmentCanon(&refmcap.Attachment{LogTime: jsU64(m["log_time"]), CreateTime: jsU64(m["create_time"]), Name: jsStr(m["name"]), MediaType: jsStr(m["media_type"]), Data: jsBytes(m["data"])}))
		}
		if df := firstDiff(e.attachments, got); df != "" {
			return fmt.Sprintf("%s: attachments differ: %s", reader, df)
		}
	}
	if cmpMetadata {
		ms, _ := d["metadata"].([]any)
		var got []string
		for _, a := range ms {
			m, _ := a.(map[string]any)
			got = append(got, drive.CanonMetadataR(&refmcap.Metadata{Name: jsStr(m["name"]), Metadata: jsKV(m["metadata"])}))
		}
		if df := firstDiff(e.metadata, got); df != "" {
			return fmt.Sprintf("%s: metadata differ: %s", reader, df)
		}
	}
	if cmpStats {
		sum, _ := d["summary"].(map[string]any)
		if sum == nil {
			return reader + ": no summary although the file has a statistics record"
		}
		st, _ := sum["statistics"].(map[string]any)
		if st == nil {
			return reader + ": summary has no statistics although the file has a statistics record"
		}
		na, nmd := len(e.attachments), len(e.metadata)
		var lo, hi uint64
		for i, t := range e.triples {
			if i == 0 || t.LogTime < lo {
				lo = t.LogTime
			}
			if i == 0 || t.LogTime > hi {
				hi = t.LogTime
			}
		}
		if jsU64(st["message_count"]) != uint64(len(e.triples)) || int(st["attachment_count"].(float64)) != na || int(st["metadata_count"].(float64)) != nmd ||
			jsU64(st["message_start_time"]) != lo || jsU64(st["message_end_time"]) != hi ||
			int(st["channel_count"].(float64)) != len(c.W.ChannelByID()) || int(st["schema_count"].(float64)) != len(c.W.SchemaByID()) {
			return fmt.Sprintf("%s: statistics %v differ from what was written (%d messages [%d,%d], %d attachments, %d metadata, %d channels, %d schemas)", reader, st, len(e.triples), lo, hi, na, nmd, len(c.W.ChannelByID()), len(c.W.SchemaByID()))
		}
	}
	return ""
}

func runGoToPython(ctx *core.Ctx, rep *core.Report, n int, dir string) {
	const batch = 50
	for start := 0; start < n; start += batch {
		end := start + batch
		if end > n {
			end = n
		}
		var cases []*Case
		var files []string
		for i := start; i < end; i++ {
			c := c16GoCase(ctx, i)
			res := writeClean(c, rep)
			if res == nil {
				continue
			}
			p := filepath.Join(dir, fmt.Sprintf("go-%d.mcap", i))
			if err := os.WriteFile(p, res.Bytes(), 0o644); err != nil {
				rep.Inconclusive(err.Error())
				return
			}
			cases = append(cases, c)
			files = append(files, p)
		}
		results, err := runPython(ctx, "read", map[string]any{"repo": ctx.RepoDir, "files": files}, dir, fmt.Sprintf("read-%d", start))
		if err != nil {
			rep.Inconclusive("python bridge failed: " + err.Error())
			return
		}
		if len(results) != len(cases) {
			rep.Inconclusive(fmt.Sprintf("python bridge returned %d results for %d files", len(results), len(cases)))
			return
		}
		for k, c := range cases {
			rep.Eval(1)
			e := expect(c)
			witness := c.Witness()
			witness["direction"] = "go-to-python"
			if len(e.triples) > 0 || len(e.attachments) > 0 {
				rep.Distinct("go->py", c.Shape.String(), c.K.String())
			}
			stream, _ := results[k]["stream"].(map[string]any)
			hasStats := !c.K.SkipStatistics
			if problem := judgePythonDump(c, e, stream, "NonSeekingReader(validate_crcs)", true, true, true, hasStats); problem != "" {
				rep.Violate("python-streaming-reader", c.Describe()+": "+problem, witness)
				continue
			}
			rep.Count("go_files_read_by_python_streaming", 1)
			seeking, _ := results[k]["seeking"].(map[string]any)
			// the seeking reader is judged on what the summary lets it find
			hasChunkIdx := c.K.Chunked && !c.K.SkipChunkIndex
			cmpMsgs := !hasChunkIdx || c.K.Indexed()
			if problem := judgePythonDump(c, e, seeking, "SeekingReader(validate_crcs)", cmpMsgs, !c.K.SkipAttachmentIndex, !c.K.SkipMetadataIndex, hasStats); problem != "" {
				if !cmpMsgs && jsStr(seeking["error"]) != "" {
					rep.Count("seeking_reader_not_applicable", 1)
				} else {
					rep.Violate("python-seeking-reader", c.Describe()+": "+problem, witness)
					continue
				}
			} else {
				rep.Count("go_files_read_by_python_seeking", 1)
				if cmpMsgs && hasChunkIdx {
					rep.Count("go_files_read_by_python_through_chunk_index", 1)
				}
				// the same comparisons on ONE SeekingReader instance that has already served time-ordered reads
				reused, _ := results[k]["seeking_reused"].(map[string]any)
				if problem := judgePythonDump(c, e, reused, "SeekingReader reused after time-ordered reads", cmpMsgs, !c.K.SkipAttachmentIndex, !c.K.SkipMetadataIndex, hasStats); problem != "" {
					if !(!cmpMsgs && jsStr(reused["error"]) != "") {
						rep.Violate("python-seeking-reader-reused", c.Describe()+": "+problem, witness)
						continue
					}
				} else {
					rep.Count("go_files_read_by_reused_python_seeking_reader", 1)
				}
			}
			if k == 0 {
				rep.Sample(map[string]any{"direction": "go->python", "case": c.Index, "shape": c.Shape.String(), "config": c.K.String(), "messages": len(e.triples)})
			}
		}
		for _, f := range files {
			os.Remove(f)
		}
	}
}

// ---- Python -> Go

type pyJob struct {
	Path    string           `json:"path"`
	Options map[string]any   `json:"options"`
	Profile string           `json:"profile"`
	Library string           `json:"library"`
	Ops     []map[string]any `json:"ops"`
	w       *gen.Workload
}

func c16PyJob(ctx *core.Ctx, i int, dir string) *pyJob {
	r := gen.Rng(ctx.Seed, "c16py", i)
	class := 0
	if r.Intn(4) == 0 {
		class = 1
	}
	shape := gen.RandShape(r, class)
	shape.UTF8Only = true
	shape.Rewrites = false
	shape.BoundaryIDs = false
	if shape.MaxLongStr > 400 {
		shape.MaxLongStr = 400
	}
	if shape.Channels == 0 {
		shape.Channels = 1
	}
	w := gen.RandWorkload(r, shape)
	var idx []string
	for _, n := range []string{"ATTACHMENT", "CHUNK", "MESSAGE", "METADATA"} {
		if r.Intn(4) != 0 {
			idx = append(idx, n)
		}
	}
	j := &pyJob{Path: filepath.Join(dir, fmt.Sprintf("py-%d.mcap", i)), Profile: w.Header.Profile, Library: w.Header.Library, w: w,
		Options: map[string]any{"chunk_size": []int{1, 100, 1024, 1 << 20}[r.Intn(4)], "index_types": idx, "repeat_channels": r.Intn(4) != 0, "repeat_schemas": r.Intn(4) != 0,
			"use_chunking": r.Intn(4) != 0, "use_statistics": r.Intn(4) != 0, "use_summary_offsets": r.Intn(3) != 0, "enable_crcs": r.Intn(3) != 0, "enable_data_crcs": r.Intn(2) == 0}}
	schemaRef := map[uint16]int{}
	chanRef := map[uint16]int{}
	for _, it := range w.Ops {
		switch {
		case it.Schema != nil:
			schemaRef[it.Schema.ID] = len(schemaRef)
			j.Ops = append(j.Ops, map[string]any{"kind": "schema", "name": it.Schema.Name, "encoding": it.Schema.Encoding, "data": hex.EncodeToString(it.Schema.Data)})
		case it.Channel != nil:
			ref := -1
			if it.Channel.SchemaID != 0 {
				ref = schemaRef[it.Channel.SchemaID]
			}
			chanRef[it.Channel.ID] = len(chanRef)
			md := map[string]string{}
			for _, e := range it.Channel.Metadata {
				md[e.K] = e.V
			}
			j.Ops = append(j.Ops, map[string]any{"kind": "channel", "topic": it.Channel.Topic, "message_encoding": it.Channel.MessageEncoding, "schema_ref": ref, "metadata": md})
		case it.Message != nil:
			m := it.Message
			j.Ops = append(j.Ops, map[string]any{"kind": "message", "channel_ref": chanRef[m.ChannelID], "log_time": strconv.FormatUint(m.LogTime, 10), "publish_time": strconv.FormatUint(m.PublishTime, 10),
				"sequence": m.Sequence, "data": hex.EncodeToString(m.Data)})
		case it.Attachment != nil:
			a := it.Attachment
			j.Ops = append(j.Ops, map[string]any{"kind": "attachment", "log_time": strconv.FormatUint(a.LogTime, 10), "create_time": strconv.FormatUint(a.CreateTime, 10), "name": a.Name, "media_type": a.MediaType, "data": hex.EncodeToString(a.Data)})
		case it.Metadata != nil:
			md := map[string]string{}
			for _, e := range it.Metadata.Metadata {
				md[e.K] = e.V
			}
			j.Ops = append(j.Ops, map[string]any{"kind": "metadata", "name": it.Metadata.Name, "metadata": md})
		}
	}
	return j
}

// pyExpected renumbers the workload with the ids the Python writer assigned.
func pyExpected(j *pyJob, schemaIDs, channelIDs []int) *expected {
	e := &expected{}
	sIdx, cIdx := 0, 0
	sMap := map[uint16]uint16{}
	cMap := map[uint16]uint16{}
	schemas := map[uint16]*refmcap.Schema{}
	channels := map[uint16]*refmcap.Channel{}
	for _, it := range j.w.Ops {
		switch {
		case it.Schema != nil:
			ns := *it.Schema
			ns.ID = uint16(schemaIDs[sIdx])
			sMap[it.Schema.ID] = ns.ID
			sIdx++
			schemas[ns.ID] = &ns
		case it.Channel != nil:
			nc := *it.Channel
			nc.ID = uint16(channelIDs[cIdx])
			cMap[it.Channel.ID] = nc.ID
			cIdx++
			if nc.SchemaID != 0 {
				nc.SchemaID = sMap[nc.SchemaID]
			}
			channels[nc.ID] = &nc
		case it.Message != nil:
			nm := *it.Message
			nm.ChannelID = cMap[nm.ChannelID]
			ch := channels[nm.ChannelID]
			t := drive.Triple{C: drive.CanonChannelR(ch), M: drive.CanonMessageR(&nm), S: "nil-schema", Seq: nm.Sequence, LogTime: nm.LogTime, ChanID: nm.ChannelID}
			if ch.SchemaID != 0 {
				t.S = drive.CanonSchemaR(schemas[ch.SchemaID])
			}
			e.triples = append(e.triples, t)
		case it.Attachment != nil:
			e.attachments = append(e.attachments, drive.AttachmentCanon(it.Attachment))
		case it.Metadata != nil:
			e.metadata = append(e.metadata, drive.CanonMetadataR(it.Metadata))
		}
	}
	return e
}

func judgePythonFile(j *pyJob, e *expected, data []byte, rep *core.Report) string {
	f, err := refmcap.Decode(data, nil)
	if err != nil {
		return "" // not a file the reference decoder can walk: the Python writer's problem, counted by the caller
	}
	// lexer
	lr := drive.Lex(bytes.NewReader(data), drive.LexOpts{Validate: true, ComputeAttCRC: true})
	if lr.Panic != nil {
		return "Go lexer panicked: " + lr.Panic.Error()
	}
	if lr.Err != io.EOF { //nolint:errorlint
		return fmt.Sprintf("Go lexer ended with %v", lr.Err)
	}
	h, ts, atts, mds, problem := lexerTriples(lr)
	if problem != "" {
		return "Go lexer: " + problem
	}
	if want := "\x01" + string((&refmcap.Header{Profile: j.Profile, Library: j.Library}).Body()); h != want {
		return "Go lexer: header differs from what Python was given"
	}
	if d := firstDiff(tripleKeys(e.triples), tripleKeys(ts)); d != "" {
		return "Go lexer: messages differ from what Python was given: " + d
	}
	if d := firstDiff(e.attachments, atts); d != "" {
		return "Go lexer: attachments differ: " + d
	}
	if d := firstDiff(e.metadata, mds); d != "" {
		return "Go lexer: metadata differ: " + d
	}
	for _, o := range lr.Outs {
		if o.Op == refmcap.OpAttachment && (o.CRCErr != nil || o.ComputedCRC != o.ParsedCRC) {
			return "Go lexer: attachment CRC written by Python does not verify"
		}
	}
	// scan iterator
	ir := drive.ReadMessages(bytes.NewReader(data), drive.IterOpts{Opts: []mcap.ReadOpt{mcap.UsingIndex(false)}, MetadataCB: true})
	if err := ir.Failed(); err != nil {
		return fmt.Sprintf("Go scan iterator failed: %v", err)
	}
	if d := firstDiff(tripleKeys(e.triples), tripleKeys(ir.Triples)); d != "" {
		return "Go scan iterator: messages differ: " + d
	}
	if d := firstDiff(e.metadata, ir.Metadata); d != "" {
		return "Go scan iterator: metadata callback differs: " + d
	}
	// index-based reads where the summary supports them
	hasCI := len(f.SummaryRecs(refmcap.OpChunkIndex)) > 0
	hasCh := len(f.SummaryRecs(refmcap.OpChannel)) > 0
	hasSc := len(f.SummaryRecs(refmcap.OpSchema)) > 0 || len(j.w.SchemaByID()) == 0
	where := positions(f)
	if hasCI && hasCh && hasSc {
		for _, v := range indexedVariants() {
			ir := drive.ReadMessages(bytes.NewReader(data), drive.IterOpts{Opts: v.opts})
			if err := ir.Failed(); err != nil {
				return fmt.Sprintf("Go %s failed on a Python file with chunk indexes and repeated channels/schemas: %v", v.name, err)
			}
			if v.order == mcap.FileOrder {
				if d := firstDiff(tripleKeys(e.triples), tripleKeys(ir.Triples)); d != "" {
					return fmt.Sprintf("Go %s: messages differ: %s", v.name, d)
				}
			} else {
				if !eqStrings(sortedKeys(e.triples), sortedKeys(ir.Triples)) {
					return fmt.Sprintf("Go %s: returned a different set of messages (%d vs %d)", v.name, len(ir.Triples), len(e.triples))
				}
				if p := orderProblem(ir.Triples, v.order, where); p != "" {
					return fmt.Sprintf("Go %s: %s", v.name, p)
				}
			}
		}
		rep.Count("python_files_read_by_go_through_index", 1)
	}
	// Info against the reference decoder's view of the summary
	var info *mcap.Info
	var ierr error
	raProblem := ""
	p := core.Safe(func() {
		r, err := mcap.NewReader(bytes.NewReader(data))
		if err != nil {
			ierr = err
			return
		}
		defer r.Close()
		info, ierr = r.Info()
		if ierr != nil {
			return
		}
		// follow the metadata and attachment indexes Python wrote (they are listed in write order)
		if len(info.MetadataIndexes) == len(e.metadata) {
			for k, mi := range info.MetadataIndexes {
				md, err := r.GetMetadata(mi.Offset)
				if err != nil {
					raProblem = fmt.Sprintf("Go GetMetadata at the offset of Python's metadata index %d (%q) failed: %v", k, mi.Name, err)
					return
				}
				if drive.CanonMetadata(md) != e.metadata[k] {
					raProblem = fmt.Sprintf("Go GetMetadata at the offset of Python's metadata index %d returns %s, written was %s", k, drive.Describe(drive.CanonMetadata(md)), drive.Describe(e.metadata[k]))
					return
				}
			}
			rep.Count("python_metadata_indexes_followed_by_go", int64(len(info.MetadataIndexes)))
		}
		if len(info.AttachmentIndexes) == len(e.attachments) {
			for k, ai := range info.AttachmentIndexes {
				ar, err := r.GetAttachmentReader(ai.Offset)
				if err != nil {
					raProblem = fmt.Sprintf("Go GetAttachmentReader at the offset of Python's attachment index %d (%q) failed: %v", k, ai.Name, err)
					return
				}
				d, err := io.ReadAll(ar.Data())
				if err != nil {
					raProblem = fmt.Sprintf("Go read of the attachment designated by Python's attachment index %d failed: %v", k, err)
					return
				}
				got := drive.AttachmentCanon(&refmcap.Attachment{LogTime: ar.LogTime, CreateTime: ar.CreateTime, Name: ar.Name, MediaType: ar.MediaType, Data: d})
				if got != e.attachments[k] {
					raProblem = fmt.Sprintf("Go reads a different attachment at the offset of Python's attachment index %d (%q)", k, ai.Name)
					return
				}
			}
			rep.Count("python_attachment_indexes_followed_by_go", int64(len(info.AttachmentIndexes)))
		}
	})
	if p != nil {
		return "Go Info / random access panicked: " + p.Error()
	}
	if ierr != nil {
		return fmt.Sprintf("Go Info failed: %v", ierr)
	}
	if raProblem != "" {
		return raProblem
	}
	if srecs := f.SummaryRecs(refmcap.OpStatistics); len(srecs) == 1 && srecs[0].ParseErr == nil {
		s := srecs[0].Parsed.(*refmcap.Statistics)
		g := info.Statistics
		if g == nil || g.MessageCount != s.MessageCount || g.SchemaCount != s.SchemaCount || g.ChannelCount != s.ChannelCount || g.AttachmentCount != s.AttachmentCount ||
			g.MetadataCount != s.MetadataCount || g.ChunkCount != s.ChunkCount || g.MessageStartTime != s.MessageStartTime || g.MessageEndTime != s.MessageEndTime || len(g.ChannelMessageCounts) != len(s.ChannelMessageCounts) {
			return fmt.Sprintf("Go Info.Statistics %+v differs from the statistics record Python wrote %+v", g, s)
		}
		for _, kv := range s.ChannelMessageCounts {
			if g.ChannelMessageCounts[kv.K] != kv.V {
				return fmt.Sprintf("Go Info.Statistics channel %d count %d, Python wrote %d", kv.K, g.ChannelMessageCounts[kv.K], kv.V)
			}
		}
		// and Python's statistics describe what it was given
		if s.MessageCount != uint64(len(e.triples)) {
			rep.Note("python statistics message_count %d for %d messages (Python side; not judged)", s.MessageCount, len(e.triples))
		}
	} else if info.Statistics != nil {
		return "Go Info reports statistics for a file without a statistics record"
	}
	if len(info.Channels) != len(distinctIDs(f.SummaryRecs(refmcap.OpChannel))) || len(info.Schemas) != len(distinctIDs(f.SummaryRecs(refmcap.OpSchema))) {
		return fmt.Sprintf("Go Info lists %d channels / %d schemas, the summary Python wrote has %d / %d", len(info.Channels), len(info.Schemas), len(f.SummaryRecs(refmcap.OpChannel)), len(f.SummaryRecs(refmcap.OpSchema)))
	}
	for _, r := range f.SummaryRecs(refmcap.OpChannel) {
		c := r.Parsed.(*refmcap.Channel)
		if g, ok := info.Channels[c.ID]; !ok || drive.CanonChannel(g) != drive.CanonChannelR(c) {
			return fmt.Sprintf("Go Info.Channels[%d] differs from the summary record", c.ID)
		}
	}
	for _, r := range f.SummaryRecs(refmcap.OpSchema) {
		s := r.Parsed.(*refmcap.Schema)
		if g, ok := info.Schemas[s.ID]; !ok || drive.CanonSchema(g) != drive.CanonSchemaR(s) {
			return fmt.Sprintf("Go Info.Schemas[%d] differs from the summary record", s.ID)
		}
	}
	if len(info.ChunkIndexes) != len(f.SummaryRecs(refmcap.OpChunkIndex)) || len(info.AttachmentIndexes) != len(f.SummaryRecs(refmcap.OpAttachmentIndex)) || len(info.MetadataIndexes) != len(f.SummaryRecs(refmcap.OpMetadataIndex)) {
		return fmt.Sprintf("Go Info lists %d/%d/%d chunk/attachment/metadata indexes, Python wrote %d/%d/%d", len(info.ChunkIndexes), len(info.AttachmentIndexes), len(info.MetadataIndexes),
			len(f.SummaryRecs(refmcap.OpChunkIndex)), len(f.SummaryRecs(refmcap.OpAttachmentIndex)), len(f.SummaryRecs(refmcap.OpMetadataIndex)))
	}
	return ""
}

func runPythonToGo(ctx *core.Ctx, rep *core.Report, n int, dir string) {
	const batch = 50
	for start := 0; start < n; start += batch {
		end := start + batch
		if end > n {
			end = n
		}
		var jobs []*pyJob
		for i := start; i < end; i++ {
			jobs = append(jobs, c16PyJob(ctx, i, dir))
		}
		results, err := runPython(ctx, "write", map[string]any{"repo": ctx.RepoDir, "jobs": jobs}, dir, fmt.Sprintf("write-%d", start))
		if err != nil {
			rep.Inconclusive("python bridge failed: " + err.Error())
			return
		}
		if len(results) != len(jobs) {
			rep.Inconclusive("python bridge returned a wrong number of results")
			return
		}
		for k, j := range jobs {
			rep.Eval(1)
			witness := map[string]any{"direction": "python-to-go", "py_case": start + k, "options": j.Options}
			if e := jsStr(results[k]["error"]); e != "" {
				rep.Count("python_writer_failed", 1)
				rep.Note("python writer failed on job %d: %s (Python side; not judged)", start+k, e)
				continue
			}
			toInts := func(v any) []int {
				l, _ := v.([]any)
				out := make([]int, len(l))
				for i, x := range l {
					out[i] = int(x.(float64))
				}
				return out
			}
			exp := pyExpected(j, toInts(results[k]["schema_ids"]), toInts(results[k]["channel_ids"]))
			data, err := os.ReadFile(j.Path)
			os.Remove(j.Path)
			if err != nil {
				rep.Inconclusive(err.Error())
				continue
			}
			f, derr := refmcap.Decode(data, nil)
			if derr != nil {
				rep.Count("python_files_not_decodable_by_reference", 1)
				rep.Note("reference decoder cannot walk python file %d: %v", start+k, derr)
				continue
			}
			if probs := refmcap.Validate(f, refmcap.Expect{}); len(probs) > 0 {
				rep.Count("python_files_with_spec_discrepancies", 1)
				rep.Note("python file %d is not fully spec-valid by the reference validator: %s (Python side; not judged)", start+k, probs[0])
			}
			if len(exp.triples) > 0 || len(exp.attachments) > 0 {
				rep.Distinct("py->go", start+k)
			}
			if problem := judgePythonFile(j, exp, data, rep); problem != "" {
				rep.Violate("go-reads-python-file-differently", fmt.Sprintf("python job %d (options %v; %d messages): %s", start+k, j.Options, len(exp.triples), problem), witness)
				continue
			}
			rep.Count("python_files_read_by_go", 1)
			if k == 0 {
				rep.Sample(map[string]any{"direction": "python->go", "job": start + k, "options": j.Options, "messages": len(exp.triples), "file_bytes": len(data)})
			}
		}
	}
}

func RunC16(ctx *core.Ctx, rep *core.Report) {
	rep.Rule = "Go->Python: seeded workloads restricted to valid UTF-8, written by the Go Writer in every uncompressed configuration (chunked/unchunked, chunk sizes 1..1 MiB, CRC on/off, all flags), read by /repo/python/mcap through NonSeekingReader(validate_crcs=True) (messages in file order and log-time order, attachments, metadata, summary) and SeekingReader(validate_crcs=True) (judged on what the summary lets it find; once per query on a fresh instance and once on a single instance that has already served time-ordered reads); the JSON dumps are compared with the call log. " +
		"Python->Go: the same kind of workloads are written by mcap.writer.Writer (compression NONE; chunk size, index types, repeat_channels/schemas, chunking, statistics, summary offsets, CRC options varied; ids as Python assigns them) and read by the Go lexer (validating), scan iterator, index-based iterator in three orders where the summary supports it, and Info (compared with the reference decoder's view of what Python wrote). distinct_nontrivial counts distinct files exchanged that carry messages or attachments."
	rep.Assumptions = []string{"system python3 imports /repo/python/mcap; zstandard/lz4 Python modules are absent, so only uncompressed files are exchanged", "ties in log-time order are unconstrained"}
	dir, err := os.MkdirTemp(ctx.BinDir, "c16-")
	if err != nil {
		rep.Inconclusive(err.Error())
		return
	}
	defer os.RemoveAll(dir)
	n := ctx.Pick(150, 6000)
	runGoToPython(ctx, rep, n, dir)
	runPythonToGo(ctx, rep, n, dir)
}
