package mon

import (
	"bytes"
	"fmt"
	"io"
	"math/rand"

	"github.com/foxglove/mcap/go/mcap"

	"verifharness/core"
	"verifharness/drive"
	"verifharness/iofault"
	"verifharness/refmcap"
)

// c15Reader is one reader configuration applied to a source.
type c15Reader struct {
	name     string
	seekable bool
	run      func(src *iofault.Source, after int) (keys []string, terminal error, panicked *core.PanicError, outs []drive.Out, afterErr []error)
}

func lexRun(validate bool) func(src *iofault.Source, after int) ([]string, error, *core.PanicError, []drive.Out, []error) {
	return func(src *iofault.Source, after int) ([]string, error, *core.PanicError, []drive.Out, []error) {
		// stream-only: the lexer must not depend on Seek
		lr := drive.Lex(iofault.NoSeek{S: src}, drive.LexOpts{Validate: validate, ComputeAttCRC: true, AfterErr: after})
		keys := make([]string, 0, len(lr.Outs))
		for _, o := range lr.Outs {
			if o.AttReadErr != nil || o.CRCErr != nil {
				// the consumer's own read of the attachment data (or of its CRC) reported the failure: that
				// is the outcome, not a record that was returned
				continue
			}
			k := string([]byte{o.Op}) + o.Canon
			if o.Op == refmcap.OpAttachment {
				// whether the computed CRC agrees with the stored one is part of what the reader reports
				k += fmt.Sprintf("|crc_ok=%v", o.ComputedCRC == o.ParsedCRC)
			}
			keys = append(keys, k)
		}
		return keys, lr.Err, lr.Panic, lr.Outs, lr.After
	}
}

func iterRun(seek bool, opts ...mcap.ReadOpt) func(src *iofault.Source, after int) ([]string, error, *core.PanicError, []drive.Out, []error) {
	return func(src *iofault.Source, after int) ([]string, error, *core.PanicError, []drive.Out, []error) {
		var r io.Reader = src
		if !seek {
			r = iofault.NoSeek{S: src}
		}
		ir := drive.ReadMessages(r, drive.IterOpts{Opts: opts, MetadataCB: true, AfterErr: after})
		keys := tripleKeys(ir.Triples)
		var term error
		switch {
		case ir.OpenErr != nil:
			term = ir.OpenErr
		case ir.Err != nil:
			term = ir.Err
		default:
			term = io.EOF
		}
		return keys, term, ir.Panic, nil, ir.After
	}
}

func infoRun(src *iofault.Source, _ int) ([]string, error, *core.PanicError, []drive.Out, []error) {
	var keys []string
	var term error = io.EOF
	p := core.Safe(func() {
		r, err := mcap.NewReader(src)
		if err != nil {
			term = err
			return
		}
		defer r.Close()
		info, err := r.Info()
		if err != nil {
			term = err
			return
		}
		keys = append(keys, fmt.Sprintf("schemas=%d channels=%d chunks=%d att=%d md=%d stats=%v", len(info.Schemas), len(info.Channels), len(info.ChunkIndexes), len(info.AttachmentIndexes), len(info.MetadataIndexes), info.Statistics != nil))
		for _, ai := range info.AttachmentIndexes {
			ar, err := r.GetAttachmentReader(ai.Offset)
			if err != nil {
				term = err
				return
			}
			d, err := io.ReadAll(ar.Data())
			if err != nil {
				term = err
				return
			}
			if _, err := ar.ParsedCRC(); err != nil {
				term = err
				return
			}
			keys = append(keys, fmt.Sprintf("att %q %x", ar.Name, d))
		}
		for _, mi := range info.MetadataIndexes {
			md, err := r.GetMetadata(mi.Offset)
			if err != nil {
				term = err
				return
			}
			keys = append(keys, drive.CanonMetadata(md))
		}
	})
	return keys, term, p, nil, nil
}

// lexSeekRun gives the lexer a seekable source and no attachment callback, so that attachments are
// skipped with Seek (a different code path from the streaming skip).
func lexSeekRun(src *iofault.Source, after int) ([]string, error, *core.PanicError, []drive.Out, []error) {
	lr := drive.Lex(src, drive.LexOpts{NoAttachCB: true, AfterErr: after})
	keys := make([]string, 0, len(lr.Outs))
	for _, o := range lr.Outs {
		keys = append(keys, string([]byte{o.Op})+o.Canon)
	}
	return keys, lr.Err, lr.Panic, lr.Outs, lr.After
}

var c15Readers = []c15Reader{
	{"lexer(seekable source, attachments skipped)", true, lexSeekRun},
	{"lexer", false, lexRun(false)},
	{"lexer(validate)", false, lexRun(true)},
	{"scan-iterator", false, iterRun(false, mcap.UsingIndex(false))},
	{"index/file", true, iterRun(true, mcap.UsingIndex(true))},
	{"index/logtime", true, iterRun(true, mcap.InOrder(mcap.LogTimeOrder))},
	{"index/reverse", true, iterRun(true, mcap.InOrder(mcap.ReverseLogTimeOrder))},
	{"info+random-access", true, infoRun},
}

func isPrefix(got, full []string) bool {
	if len(got) > len(full) {
		return false
	}
	for i := range got {
		if got[i] != full[i] {
			return false
		}
	}
	return true
}

const c15Stripes = 4

func checkC15Case(ctx *core.Ctx, i int, rep *core.Report) {
	for j := range c15Readers {
		for s := 0; s < c15Stripes; s++ {
			checkC15Job(ctx, i, j, s, rep)
		}
	}
}

// checkC15Job handles reader j of file i for the byte positions congruent to stripe (the delivery
// schedules and seek faults are done by stripe 0).
func checkC15Job(ctx *core.Ctx, i, j, stripe int, rep *core.Report) {
	c := smallFileCase(ctx, "c15", i)
	if c.K.Chunked {
		c.K.SkipChunkIndex, c.K.SkipRepeatedChannelInfos, c.K.SkipRepeatedSchemas = false, false, false
	}
	res := writeClean(c, rep)
	if res == nil {
		return
	}
	data := res.Bytes()
	witness := c.Witness()
	witness["c15_case"] = i
	rep.Distinct(c.Shape.String(), c.K.String())
	if j == 0 && stripe == 0 {
		rep.Count("files", 1)
		rep.Count("file_bytes", int64(len(data)))
	}
	for _, rd := range c15Readers[j : j+1] {
		base, bterm, bp, _, _ := rd.run(iofault.NewSource(data), 0)
		if bp != nil || !drive.CleanEOF(bterm) {
			if rd.seekable && !c.K.Chunked && bp == nil {
				// time-ordered read of an unindexed file: the documented outcome is an error; nothing to compare
				rep.Count("reader_not_applicable_to_file", 1)
				continue
			}
			rep.Inconclusive(fmt.Sprintf("c15 case %d: fault-free %s read is not clean (%v) - other properties judge that", i, rd.name, bterm))
			return
		}
		// --- delivery schedules
		for _, mode := range []iofault.FragMode{iofault.OneByte, iofault.Halving, iofault.RandomSizes, iofault.DataWithEOF, iofault.OneByteEOF} {
			if stripe != 0 {
				break
			}
			src := iofault.NewSource(data)
			src.Mode = mode
			src.Rng = rand.New(rand.NewSource(ctx.Seed*31 + int64(i)))
			got, term, p, _, _ := rd.run(src, 0)
			rep.Eval(1)
			rep.Count("fragmented_reads", 1)
			what := fmt.Sprintf("%s, %s with %s delivery", c.Describe(), rd.name, iofault.FragNames[mode])
			if p != nil {
				rep.Violate("panic", what+": "+p.Error(), witness)
				return
			}
			if !drive.CleanEOF(term) || !eqStrings(got, base) {
				rep.Violate("fragmentation-changes-result", fmt.Sprintf("%s: %d records and outcome %v; with plain delivery %d records and clean EOF: %s", what, len(got), term, len(base), firstDiffPlain(base, got)), witness)
				return
			}
		}
		// --- injected read error at every byte position
		// (position len(data): every byte is delivered and the source then fails instead of reporting end-of-file)
		for pos := stripe; pos <= len(data); pos += c15Stripes {
			for _, sticky := range []bool{true, false} {
				src := iofault.NewSource(data)
				src.FaultAt = int64(pos)
				src.Sticky = sticky
				after := 0
				if sticky {
					after = 2 // a source that keeps failing: asking again must not turn the failure into a clean end
				}
				got, term, p, _, afterErrs := rd.run(src, after)
				rep.Eval(1)
				what := fmt.Sprintf("%s, %s with a read error injected at byte %d of %d (sticky=%v)", c.Describe(), rd.name, pos, len(data), sticky)
				if p != nil {
					rep.Violate("panic", what+": "+p.Error(), witness)
					return
				}
				if !src.Fired {
					rep.Count("faults_not_reached", 1)
					if !drive.CleanEOF(term) || !eqStrings(got, base) {
						rep.Violate("unreached-fault-changes-result", what+": the reader never touched that byte, yet the result differs from the fault-free one", witness)
						return
					}
					continue
				}
				rep.Count("faults_fired", 1)
				if !isPrefix(got, base) {
					rep.Violate("not-a-prefix", fmt.Sprintf("%s: records returned before the outcome are not a prefix of the fault-free sequence: %s", what, firstDiffPlain(base, got)), witness)
					return
				}
				if term == nil || drive.CleanEOF(term) {
					rep.Violate("source-error-reads-as-eof", fmt.Sprintf("%s: read ended with %v after %d of %d records although the source reported an I/O error", what, term, len(got), len(base)), witness)
					return
				}
				core.NotePattern(rep, "terminal_error_classes", errorClass(term))
				for k, e := range afterErrs {
					rep.Count("calls_after_a_permanent_source_error", 1)
					if e == nil || drive.CleanEOF(e) {
						out := "returned a record"
						if e != nil {
							out = "reported a clean end-of-file (" + e.Error() + ")"
						}
						rep.Violate("source-error-then-eof", fmt.Sprintf("%s: the read ended with %v after %d of %d records; call #%d after that %s although every read of the source keeps failing", what, term, len(got), len(base), k+1, out), witness)
						return
					}
				}
			}
		}
		// --- failing seeks
		if rd.seekable && stripe == 0 {
			probe := iofault.NewSource(data)
			rd.run(probe, 0)
			for k := 0; k < probe.SeekCalls; k++ {
				src := iofault.NewSource(data)
				src.FailSeek = k
				got, term, p, _, _ := rd.run(src, 0)
				rep.Eval(1)
				rep.Count("seek_faults", 1)
				what := fmt.Sprintf("%s, %s with seek #%d failing", c.Describe(), rd.name, k)
				if p != nil {
					rep.Violate("panic", what+": "+p.Error(), witness)
					return
				}
				if !src.SeekFired {
					continue
				}
				if !isPrefix(got, base) || term == nil || drive.CleanEOF(term) {
					rep.Violate("seek-error-swallowed", fmt.Sprintf("%s: outcome %v with %d of %d records", what, term, len(got), len(base)), witness)
					return
				}
			}
		}
	}
	if i%5 == 0 && j == 0 && stripe == 0 {
		rep.Sample(map[string]any{"case": i, "shape": c.Shape.String(), "config": c.K.String(), "file_bytes": len(data), "positions": len(data), "readers": len(c15Readers)})
	}
}

// errorClass reduces an error to a short class name for the evidence.
func errorClass(err error) string {
	s := err.Error()
	if len(s) > 48 {
		s = s[:48]
	}
	// strip digits so positions do not multiply classes
	b := []byte(s)
	for i, ch := range b {
		if ch >= '0' && ch <= '9' {
			b[i] = '#'
		}
	}
	return string(b)
}

func RunC15(ctx *core.Ctx, rep *core.Report) {
	rep.Level = "fault_enumeration"
	rep.Rule = "small files (about 1-6 KiB; none/zstd/lz4 chunked with full index, and unchunked) written by the real Writer; eight reader configurations (lexer with validation off/on and scan iterator on a stream-only source; lexer skipping attachments by Seek on a seekable source; index-based iterator in three orders and Info+attachment/metadata random access on a seekable source). " +
		"Per file and reader: five delivery schedules (1-byte, halving, seeded random sizes, data together with io.EOF, both) must give the identical result; then a non-EOF read error is injected at EVERY byte position, sticky and fire-once, and every Seek call is failed in turn. " +
		"Oracle: fired fault => records returned are a prefix of the fault-free sequence and the outcome is an error that is not (and does not wrap) io.EOF, no panic; unreached fault => identical result. distinct_nontrivial counts distinct files enumerated."
	rep.Assumptions = []string{"'clean end-of-file' is errors.Is(err, io.EOF), the library's documented end signal"}
	n := ctx.Pick(12, 400)
	nr := len(c15Readers)
	core.Parallel(ctx, rep, n*nr*c15Stripes, func(k int) {
		checkC15Job(ctx, k/(nr*c15Stripes), (k/c15Stripes)%nr, k%c15Stripes, rep)
	})
}

var _ = bytes.NewReader
