package mon

import (
	"bytes"
	"errors"
	"fmt"
	"io"

	"verifharness/core"
	"verifharness/drive"
	"verifharness/gen"
	"verifharness/refmcap"
)

func c07Case(ctx *core.Ctx, i int) *Case {
	r := gen.Rng(ctx.Seed, "c07", i)
	c := &Case{Index: i, Seed: ctx.Seed}
	c.Shape = gen.Shape{Schemas: 1 + r.Intn(2), Channels: 1 + r.Intn(3), Messages: 6 + r.Intn(10), Attachments: 1 + r.Intn(2), Metadata: r.Intn(2), MaxPayload: 40 + r.Intn(60), MaxLongStr: 20,
		ManyMapKeys: 2, TimeMode: []string{"asc", "smallrand", "ties"}[r.Intn(3)]}
	// every other file ends with a chunk that holds only schema/channel records (its CRC matters too)
	c.Shape.TrailingChannels = i%2 == 0
	c.Shape.Channels++
	c.W = gen.RandWorkload(r, c.Shape)
	c.K = gen.Config{Chunked: true, Compression: []string{"", "zstd", "lz4", "custom"}[i%4], ChunkSize: []int64{150, 250, 400}[r.Intn(3)], IncludeCRC: true, Level: r.Intn(2),
		SkipMessageIndexing: r.Intn(3) == 0, SkipSummaryOffsets: r.Intn(3) == 0}
	return c
}

type c07File struct {
	c       *Case
	data    []byte
	f       *refmcap.File
	full    map[bool][]drive.Out // by emitInvalid (same content; kept per configuration for clarity)
	startOf []int                // for top-level record i: number of outputs produced by records before it
	endOf   []int                // ... and by records up to and including it
	witness map[string]any
}

func prepareC07(ctx *core.Ctx, i int, rep *core.Report) *c07File {
	c := c07Case(ctx, i)
	res := writeClean(c, rep)
	if res == nil {
		return nil
	}
	cf := &c07File{c: c, data: res.Bytes(), witness: c.Witness()}
	cf.witness["c07_case"] = i
	var err error
	cf.f, err = decodeRef(c, cf.data)
	if err != nil {
		rep.Inconclusive("reference decoder failed: " + err.Error())
		return nil
	}
	_, cum := cumulativeOuts(cf.f, true)
	cf.endOf = cum
	cf.startOf = make([]int, len(cum))
	for k := range cum {
		if k > 0 {
			cf.startOf[k] = cum[k-1]
		}
	}
	lr := drive.Lex(bytes.NewReader(cf.data), drive.LexOpts{Validate: true, ComputeAttCRC: true, Custom: c.K.Compression == "custom"})
	if lr.Panic != nil || !drive.CleanEOF(lr.Err) || len(lr.Outs) != cum[len(cum)-1] {
		rep.Inconclusive(fmt.Sprintf("c07 case %d: the undamaged file does not lex cleanly with validation (%v)", i, lr.Err))
		return nil
	}
	cf.full = map[bool][]drive.Out{false: lr.Outs, true: lr.Outs}
	return cf
}

func sameOuts(a, b []drive.Out) bool {
	if len(a) != len(b) {
		return false
	}
	for i := range a {
		if a[i].Op != b[i].Op || a[i].Canon != b[i].Canon {
			return false
		}
	}
	return true
}

// judgeDamagedChunk applies C07's chunk oracle to one damaged copy. recIdx is the top-level index of the damaged chunk.
func judgeDamagedChunk(cf *c07File, damaged []byte, recIdx int, emitInvalid bool, rep *core.Report, comp string) (kind, msg string) {
	lr := drive.Lex(bytes.NewReader(damaged), drive.LexOpts{Validate: true, EmitInvalid: emitInvalid, ComputeAttCRC: true, Custom: cf.c.K.Compression == "custom", ExtraOpts: emitInvalid})
	if lr.Panic != nil {
		return "panic", lr.Panic.Error()
	}
	full := cf.full[emitInvalid]
	if drive.CleanEOF(lr.Err) && lr.Err == io.EOF && sameOuts(full, lr.Outs) { //nolint:errorlint
		rep.Count("harmless_"+comp, 1)
		return "", ""
	}
	// first report: an invalid-chunk token, or the terminal error
	before := lr.Outs
	report := "terminal error"
	for k, o := range lr.Outs {
		if o.Op == drive.OpInvalidChunk {
			before = lr.Outs[:k]
			report = "invalid-chunk token"
			break
		}
	}
	// Everything yielded before the first report must be original content, and the report must come no
	// later than the damaged chunk: nothing from beyond that chunk may be yielded first. (Records of the
	// damaged chunk itself may be yielded when they are identical to the original - e.g. a flipped zstd
	// last-block flag leaves the decompressed bytes and their CRC intact and the reader only trips over
	// the chunk's unread tail.)
	start, end := cf.startOf[recIdx], cf.endOf[recIdx]
	if len(before) > len(full) || !sameOuts(full[:len(before)], before) {
		return "altered-data-returned", fmt.Sprintf("records yielded before any report differ from the original (damaged chunk spans records %d..%d); outcome %v; first difference: %s", start, end, lr.Err, firstOutDiff(full, before))
	}
	if len(before) > end {
		return "late-report", fmt.Sprintf("%d records yielded before the first report; the damaged chunk ends at record %d; outcome %v", len(before), end, lr.Err)
	}
	if len(before) < start {
		return "early-stop", fmt.Sprintf("stopped after %d records, before reaching the damaged chunk (which starts at record %d); outcome %v", len(before), start, lr.Err)
	}
	if len(before) > start {
		rep.Count("reports_after_yielding_intact_records_of_the_damaged_chunk_"+comp, 1)
	}
	if report == "terminal error" {
		if lr.Err == nil {
			return "no-report", "lexer stopped without error"
		}
		if errors.Is(lr.Err, io.EOF) {
			return "corruption-reads-as-eof", fmt.Sprintf("damage is reported as %q, which wraps io.EOF - the library's end-of-data signal - after %d of %d records", lr.Err, len(before), len(full))
		}
		core.NotePattern(rep, "detection_classes_"+comp, errorClass(lr.Err))
	} else {
		rep.Count("invalid_chunk_tokens_"+comp, 1)
	}
	rep.Count("detected_"+comp, 1)
	return "", ""
}

func firstOutDiff(full, got []drive.Out) string {
	for i := range got {
		if i >= len(full) {
			return fmt.Sprintf("record %d: extra %s", i, drive.Describe(got[i].Canon))
		}
		if got[i].Canon != full[i].Canon {
			return fmt.Sprintf("record %d: got %s, original %s", i, drive.Describe(got[i].Canon), drive.Describe(full[i].Canon))
		}
	}
	return "none within the returned records"
}

// c07HighLengthBits: whether bit flips in the upper bytes of the attachment name/media-type length
// fields are exercised (they make an unpatched reader allocate up to 4 GiB per flip - C10's finding).
var c07HighLengthBits = true

const c07Stripes = 6

func checkC07Case(ctx *core.Ctx, i int, rep *core.Report) {
	for s := 0; s < c07Stripes; s++ {
		checkC07Job(ctx, i, s, rep)
	}
}

// checkC07Job enumerates the byte positions congruent to stripe modulo c07Stripes.
func checkC07Job(ctx *core.Ctx, i, stripe int, rep *core.Report) {
	cf := prepareC07(ctx, i, rep)
	if cf == nil {
		return
	}
	c := cf.c
	comp := c.K.Compression
	if comp == "" {
		comp = "none"
	}
	rep.Distinct(c.Shape.String(), c.K.String())
	if stripe == 0 {
		rep.Count("files_"+comp, 1)
	}
	r := gen.Rng(ctx.Seed, "c07m", i*c07Stripes+stripe)
	nChunks := 0
	for recIdx, rec := range cf.f.Recs {
		if rec.Op != refmcap.OpChunk {
			continue
		}
		ch := rec.Parsed.(*refmcap.Chunk)
		nChunks++
		lo, hi := ch.RecordsOff, ch.RecordsOff+len(ch.Records)
		try := func(damaged []byte, desc string) bool {
			for _, emit := range []bool{false, true} {
				rep.Eval(1)
				kind, msg := judgeDamagedChunk(cf, damaged, recIdx, emit, rep, comp)
				if kind != "" {
					if kind == "corruption-reads-as-eof" && c.K.Compression == "lz4" {
						kind = "lz4-corruption-reads-as-eof"
					}
					w := map[string]any{}
					for k, v := range cf.witness {
						w[k] = v
					}
					w["damage"] = desc
					rep.Violate(kind, fmt.Sprintf("%s: chunk at offset %d (%s), %s, EmitInvalidChunks=%v: %s", c.Describe(), rec.Off, comp, desc, emit, msg), w)
					if rep.IsKnown(kind) {
						continue
					}
					return false
				}
			}
			return true
		}
		buf := make([]byte, len(cf.data))
		for off := lo; off < hi; off++ {
			if off%c07Stripes != stripe {
				continue
			}
			for bit := 0; bit < 8; bit++ {
				copy(buf, cf.data)
				buf[off] ^= 1 << bit
				rep.Count("bit_flips_"+comp, 1)
				if !try(buf, fmt.Sprintf("bit %d of byte %d flipped", bit, off)) {
					return
				}
			}
		}
		// multi-byte overwrites and byte-range swaps
		for k := 0; k < 42/c07Stripes && hi-lo > 4; k++ {
			copy(buf, cf.data)
			n := 1 + r.Intn(min(16, hi-lo-1))
			a := lo + r.Intn(hi-lo-n+1)
			desc := ""
			if k%2 == 0 {
				r.Read(buf[a : a+n])
				desc = fmt.Sprintf("%d bytes at %d overwritten", n, a)
			} else {
				b := lo + r.Intn(hi-lo-n+1)
				tmp := append([]byte(nil), buf[a:a+n]...)
				copy(buf[a:a+n], cf.data[b:b+n])
				copy(buf[b:b+n], tmp)
				desc = fmt.Sprintf("%d bytes at %d swapped with %d", n, a, b)
			}
			if bytes.Equal(buf, cf.data) {
				continue
			}
			rep.Count("overwrites_"+comp, 1)
			if !try(buf, desc) {
				return
			}
		}
	}
	// attachments: every single-bit flip of the record content up to and including the CRC
	attOrdinal := 0
	for _, rec := range cf.f.Recs {
		if rec.Op != refmcap.OpAttachment {
			continue
		}
		a := rec.Parsed.(*refmcap.Attachment)
		orig := drive.AttachmentCanon(a)
		body := rec.Off + 9
		nameLenOff := body + 16
		mediaLenOff := nameLenOff + 4 + len(a.Name)
		buf := make([]byte, len(cf.data))
		for off := body; off < body+a.CRCEnd; off++ {
			if off%c07Stripes != stripe {
				continue
			}
			for bit := 0; bit < 8; bit++ {
				if !c07HighLengthBits && ((off >= nameLenOff+2 && off < nameLenOff+4) || (off >= mediaLenOff+2 && off < mediaLenOff+4)) {
					rep.Count("attachment_length_high_bit_flips_skipped", 1)
					continue
				}
				copy(buf, cf.data)
				buf[off] ^= 1 << bit
				for _, computedFirst := range []bool{false, true} {
					rep.Eval(1)
					rep.Count("attachment_bit_flips", 1)
					lr := drive.Lex(bytes.NewReader(buf), drive.LexOpts{Validate: true, ComputeAttCRC: true, ComputedFirst: computedFirst, Custom: c.K.Compression == "custom"})
					if lr.Panic != nil {
						rep.Violate("panic", fmt.Sprintf("%s: attachment at %d, bit %d of byte %d flipped: %v", c.Describe(), rec.Off, bit, off, lr.Panic), cf.witness)
						return
					}
					// find the attachment outputs; the damaged one is the attOrdinal-th
					k := 0
					var got *drive.Out
					for oi := range lr.Outs {
						if lr.Outs[oi].Op == refmcap.OpAttachment {
							if k == attOrdinal {
								got = &lr.Outs[oi]
							}
							k++
						}
					}
					switch {
					case got == nil:
						rep.Count("attachment_damage_parse_error", 1)
					case got.AttReadErr != nil || got.CRCErr != nil:
						rep.Count("attachment_damage_read_error", 1)
					case got.ComputedCRC != got.ParsedCRC:
						rep.Count("attachment_damage_crc_mismatch", 1)
					case got.Canon == orig:
						rep.Count("attachment_damage_harmless", 1)
					default:
						rep.Violate("altered-attachment-undetected", fmt.Sprintf("%s: attachment at %d, bit %d of byte %d flipped: callback (ComputedCRC asked first=%v) received altered content with computed CRC == stored CRC (%08x)", c.Describe(), rec.Off, bit, off, computedFirst, got.ParsedCRC), cf.witness)
						return
					}
				}
			}
		}
		attOrdinal++
	}
	if i%3 == 0 && stripe == 0 {
		rep.Sample(map[string]any{"case": i, "shape": c.Shape.String(), "config": c.K.String(), "file_bytes": len(cf.data), "chunks": nChunks})
	}
}

func RunC07(ctx *core.Ctx, rep *core.Report) {
	rep.Level = "fault_enumeration"
	rep.Rule = "CRC-enabled multi-chunk files (none/zstd/lz4 and a caller-supplied compressor with the matching decompressor, in rotation; every other file ends with a message-less chunk) written by the real Writer; for every chunk EVERY single-bit flip of EVERY byte of the stored records field (positions from the reference decoder), plus 42 seeded multi-byte overwrites / byte-range swaps per chunk, each read by NewLexer(ValidateChunkCRCs) with and without EmitInvalidChunks. " +
		"Oracle: output identical to the original, or the records yielded before the first report (error that does not wrap io.EOF, or invalid-chunk token) are exactly the original records preceding the damaged chunk. " +
		"Attachments: every single-bit flip from log_time through the CRC field, read through a callback with ComputeAttachmentCRCs that asks for ParsedCRC/ComputedCRC in either order; accepted iff the callback is not reached, its read fails, content equals the original, or computed != stored CRC. distinct_nontrivial counts distinct files enumerated."
	rep.Assumptions = []string{"record and field positions come from the reference decoder", "a CRC-32 collision would be reported as a violation (it is one); none is possible for single-bit flips of uncompressed chunks"}
	n := ctx.Pick(16, 400)
	core.Parallel(ctx, rep, n*c07Stripes, func(k int) { checkC07Job(ctx, k/c07Stripes, k%c07Stripes, rep) })
}
