package mon

import (
	"bytes"
	"fmt"

	"github.com/foxglove/mcap/go/mcap"

	"verifharness/core"
	"verifharness/drive"
	"verifharness/gen"
	"verifharness/refmcap"
)

// refContent extracts, from a reference-decoded file, the data-section content in the same canonical
// form the call log is expressed in.
func refContent(f *refmcap.File) (header string, data, atts, mds []string, err error) {
	end := len(f.Recs)
	if f.DataEndIdx >= 0 {
		end = f.DataEndIdx
	}
	add := func(r *refmcap.Rec) error {
		if r.ParseErr != nil {
			return fmt.Errorf("%s at %d: %v", refmcap.OpName(r.Op), r.Off, r.ParseErr)
		}
		switch v := r.Parsed.(type) {
		case *refmcap.Header:
			header = "\x01" + string(v.Body())
		case *refmcap.Schema:
			data = append(data, drive.CanonSchemaR(v))
		case *refmcap.Channel:
			data = append(data, drive.CanonChannelR(v))
		case *refmcap.Message:
			data = append(data, drive.CanonMessageR(v))
		case *refmcap.Attachment:
			atts = append(atts, drive.AttachmentCanon(v))
		case *refmcap.Metadata:
			mds = append(mds, drive.CanonMetadataR(v))
		}
		return nil
	}
	for _, r := range f.Recs[:end] {
		if r.Op == refmcap.OpChunk {
			ch, ok := r.Parsed.(*refmcap.Chunk)
			if !ok {
				return "", nil, nil, nil, fmt.Errorf("chunk at %d unparsable: %v", r.Off, r.ParseErr)
			}
			if ch.DecompErr != nil {
				return "", nil, nil, nil, fmt.Errorf("chunk at %d: %v", r.Off, ch.DecompErr)
			}
			for _, in := range ch.Inner {
				if err := add(in); err != nil {
					return "", nil, nil, nil, err
				}
			}
			continue
		}
		if err := add(r); err != nil {
			return "", nil, nil, nil, err
		}
	}
	return
}

func checkC05Case(c *Case, rep *core.Report) { checkValidity(c, rep, "C05") }
func checkC06Case(c *Case, rep *core.Report) { checkValidity(c, rep, "C06") }

// checkValidity runs the reference decoder/validator over the bytes delivered to the sink.
// prop selects which problem classes are reported: C05 = grammar, pointer, content; C06 = crc.
func checkValidity(c *Case, rep *core.Report, prop string) {
	res := writeClean(c, rep)
	if res == nil {
		return
	}
	data := res.Bytes()
	f, err := decodeRef(c, data)
	if err != nil {
		if prop == "C05" {
			rep.Violate("undecodable", fmt.Sprintf("%s: reference decoder cannot walk the output: %v", c.Describe(), err), c.Witness())
		}
		return
	}
	nChunks := len(f.Chunks())
	nIdx := len(f.SummaryRecs(refmcap.OpChunkIndex)) + len(f.SummaryRecs(refmcap.OpAttachmentIndex)) + len(f.SummaryRecs(refmcap.OpMetadataIndex))
	rep.Count("files", 1)
	rep.Count("records_checked", int64(len(f.Recs)))
	rep.Count("chunks_checked", int64(nChunks))
	rep.Count("index_records_checked", int64(nIdx))
	for _, ch := range f.Chunks() {
		if p, ok := ch.Parsed.(*refmcap.Chunk); ok && p.DecompErr == nil {
			hasMsg := false
			for _, in := range p.Inner {
				if in.Op == refmcap.OpMessage {
					hasMsg = true
				}
			}
			if !hasMsg {
				rep.Count("message_less_chunks", 1)
			}
		}
	}
	probs := refmcap.Validate(f, drive.Expect(c.K))
	if prop == "C06" {
		crcFields := 2 + nChunks
		_, _, _, na, _ := c.W.Counts()
		crcFields += na
		rep.Count("crc_fields_checked", int64(crcFields))
		if c.K.IncludeCRC && (nChunks > 0 || na > 0) {
			rep.Distinct(c.Shape.String(), c.K.String())
		} else if !c.K.IncludeCRC {
			rep.Count("files_with_crc_disabled", 1)
			if nChunks > 0 || na > 0 {
				rep.Distinct(c.Shape.String(), c.K.String())
			}
		}
		for _, p := range probs {
			if p.Class == "crc" {
				rep.Violate("crc", fmt.Sprintf("%s: %s", c.Describe(), p.Msg), c.Witness())
				return
			}
		}
		if c.Index%500 == 0 {
			rep.Sample(map[string]any{"case": c.Index, "config": c.K.String(), "chunks": nChunks, "attachments": na, "crc_fields": crcFields, "file_bytes": len(data)})
		}
		return
	}
	if nIdx > 0 {
		rep.Distinct(c.Shape.String(), c.K.String())
	}
	for _, p := range probs {
		if p.Class != "crc" {
			rep.Violate(p.Class, fmt.Sprintf("%s: %s", c.Describe(), p.Msg), c.Witness())
			return
		}
	}
	// the decoded content must be what was handed to the writer
	e := expect(c)
	h, d, a, m, err := refContent(f)
	if err != nil {
		rep.Violate("content", fmt.Sprintf("%s: %v", c.Describe(), err), c.Witness())
		return
	}
	if h != e.header {
		rep.Violate("content", fmt.Sprintf("%s: header %s, want %s", c.Describe(), drive.Describe(h), drive.Describe(e.header)), c.Witness())
		return
	}
	if df := firstDiff(e.dataRecs, d); df != "" {
		rep.Violate("content", fmt.Sprintf("%s: schema/channel/message records in the file differ from the calls: %s", c.Describe(), df), c.Witness())
		return
	}
	if df := firstDiff(e.attachments, a); df != "" {
		rep.Violate("content", fmt.Sprintf("%s: attachments in the file differ from the calls: %s", c.Describe(), df), c.Witness())
		return
	}
	if df := firstDiff(e.metadata, m); df != "" {
		rep.Violate("content", fmt.Sprintf("%s: metadata in the file differ from the calls: %s", c.Describe(), df), c.Witness())
		return
	}
	if c.Index%500 == 0 {
		rep.Sample(map[string]any{"case": c.Index, "shape": c.Shape.String(), "config": c.K.String(), "records": len(f.Recs), "chunks": nChunks, "index_records": nIdx, "file_bytes": len(data)})
	}
}

func RunC05(ctx *core.Ctx, rep *core.Report) {
	rep.Rule = "same (workload, configuration) stream as C01; the bytes delivered to the sink are walked by the reference decoder (written from the spec, no shared code) and every record's grammar position, length, offset, size, time field and index entry is recomputed; the decoded content must equal the call log. " +
		"distinct_nontrivial counts distinct (shape, configuration) pairs whose file carries at least one chunk/attachment/metadata index record."
	rep.Assumptions = []string{"reference decoder implements website/docs/spec/index.md faithfully (it reproduces all 416 conformance binaries, see C17)", "zstd/lz4 codecs are trusted", "cross-record MUSTs disabled by the caller through options are not held against the writer"}
	n, cross := writeFamilyCases(ctx, 3000, 100000)
	core.Parallel(ctx, rep, n+cross, func(i int) {
		rep.Eval(1)
		checkC05Case(caseAt(ctx, "write", i, n), rep)
	})
}

func RunC06(ctx *core.Ctx, rep *core.Report) {
	rep.Rule = "same (workload, configuration) stream as C01; data_section_crc, summary_crc, every chunk's uncompressed_crc and every attachment crc are recomputed with hash/crc32 over the byte ranges the spec defines; with IncludeCRC=false the first three must be zero. " +
		"distinct_nontrivial counts distinct (shape, configuration) pairs with at least one chunk or attachment."
	rep.Assumptions = []string{"hash/crc32 is correct", "the reference decoder locates records correctly"}
	n, cross := writeFamilyCases(ctx, 3000, 100000)
	core.Parallel(ctx, rep, n+cross, func(i int) {
		rep.Eval(1)
		checkC06Case(caseAt(ctx, "write", i, n), rep)
	})
}

// ---- C08

func statsMismatch(what string, got *mcap.Statistics, want *refmcap.Aggregates, skipChunkCount bool) (kind, msg string) {
	if got == nil {
		return "stats-missing", what + ": no statistics"
	}
	var bad []string
	kind = "stats"
	if got.MessageCount != want.MessageCount {
		bad = append(bad, fmt.Sprintf("message_count %d want %d", got.MessageCount, want.MessageCount))
	}
	if int(got.SchemaCount) != len(want.SchemaIDs) {
		bad = append(bad, fmt.Sprintf("schema_count %d want %d", got.SchemaCount, len(want.SchemaIDs)))
	}
	if int(got.ChannelCount) != len(want.ChannelIDs) {
		bad = append(bad, fmt.Sprintf("channel_count %d want %d", got.ChannelCount, len(want.ChannelIDs)))
	}
	if got.AttachmentCount != want.AttachmentCount {
		bad = append(bad, fmt.Sprintf("attachment_count %d want %d", got.AttachmentCount, want.AttachmentCount))
	}
	if got.MetadataCount != want.MetadataCount {
		bad = append(bad, fmt.Sprintf("metadata_count %d want %d", got.MetadataCount, want.MetadataCount))
	}
	if !skipChunkCount && got.ChunkCount != want.ChunkCount {
		bad = append(bad, fmt.Sprintf("chunk_count %d want %d", got.ChunkCount, want.ChunkCount))
	}
	if got.MessageEndTime != want.MessageEndTime {
		bad = append(bad, fmt.Sprintf("message_end_time %d want %d", got.MessageEndTime, want.MessageEndTime))
	}
	for id, n := range want.ChannelCounts {
		if got.ChannelMessageCounts[id] != n {
			bad = append(bad, fmt.Sprintf("channel_message_counts[%d] %d want %d", id, got.ChannelMessageCounts[id], n))
			break
		}
	}
	for id, n := range got.ChannelMessageCounts {
		if want.ChannelCounts[id] != n {
			bad = append(bad, fmt.Sprintf("channel_message_counts[%d] %d want %d", id, n, want.ChannelCounts[id]))
			break
		}
	}
	onlyStart := len(bad) == 0
	if got.MessageStartTime != want.MessageStartTime {
		bad = append(bad, fmt.Sprintf("message_start_time %d want %d", got.MessageStartTime, want.MessageStartTime))
		if onlyStart {
			kind = "stats-start-time"
		}
	}
	if len(bad) == 0 {
		return "", ""
	}
	return kind, fmt.Sprintf("%s: %v", what, bad)
}

func checkC08Case(c *Case, rep *core.Report) {
	res := writeClean(c, rep)
	if res == nil {
		return
	}
	data := res.Bytes()
	f, err := decodeRef(c, data)
	if err != nil {
		rep.Violate("undecodable", fmt.Sprintf("%s: reference decoder cannot walk the output: %v", c.Describe(), err), c.Witness())
		return
	}
	// truth from the call log; chunk count from the reference decoder
	want := &refmcap.Aggregates{SchemaIDs: map[uint16]bool{}, ChannelIDs: map[uint16]bool{}, ChannelCounts: map[uint16]uint64{}}
	for _, it := range c.W.Ops {
		switch {
		case it.Schema != nil:
			want.SchemaIDs[it.Schema.ID] = true
		case it.Channel != nil:
			want.ChannelIDs[it.Channel.ID] = true
		case it.Message != nil:
			m := it.Message
			if want.MessageCount == 0 || m.LogTime < want.MessageStartTime {
				want.MessageStartTime = m.LogTime
			}
			if want.MessageCount == 0 || m.LogTime > want.MessageEndTime {
				want.MessageEndTime = m.LogTime
			}
			want.MessageCount++
			want.ChannelCounts[m.ChannelID]++
		case it.Attachment != nil:
			want.AttachmentCount++
		case it.Metadata != nil:
			want.MetadataCount++
		}
	}
	want.ChunkCount = uint32(len(f.Chunks()))
	rep.Count("files", 1)
	if want.MessageCount > 0 {
		rep.Distinct(c.Shape.String(), c.K.String())
	}
	if want.MessageCount > 0 && want.MessageStartTime == 0 {
		rep.Count("files_with_true_start_time_zero", 1)
	}
	if c.K.SkipStatistics {
		rep.Count("statistics_disabled_not_judged", 1)
	} else if kind, msg := statsMismatch("Writer.Statistics after Close", res.Stats, want, false); kind != "" {
		rep.Violate(kind, c.Describe()+": "+msg, c.Witness())
		return
	}
	srecs := f.SummaryRecs(refmcap.OpStatistics)
	if !c.K.SkipStatistics {
		if len(srecs) != 1 || srecs[0].ParseErr != nil {
			rep.Violate("stats-record", fmt.Sprintf("%s: %d statistics records in the file", c.Describe(), len(srecs)), c.Witness())
			return
		}
		s := srecs[0].Parsed.(*refmcap.Statistics)
		got := &mcap.Statistics{MessageCount: s.MessageCount, SchemaCount: s.SchemaCount, ChannelCount: s.ChannelCount, AttachmentCount: s.AttachmentCount,
			MetadataCount: s.MetadataCount, ChunkCount: s.ChunkCount, MessageStartTime: s.MessageStartTime, MessageEndTime: s.MessageEndTime, ChannelMessageCounts: map[uint16]uint64{}}
		for _, e := range s.ChannelMessageCounts {
			if _, dup := got.ChannelMessageCounts[e.K]; dup {
				rep.Violate("stats-record", fmt.Sprintf("%s: statistics record lists channel %d twice", c.Describe(), e.K), c.Witness())
				return
			}
			got.ChannelMessageCounts[e.K] = e.V
		}
		if kind, msg := statsMismatch("statistics record in the file", got, want, false); kind != "" {
			rep.Violate(kind, c.Describe()+": "+msg, c.Witness())
			return
		}
		rep.Count("statistics_records_checked", 1)
	}
	if c.K.SkipMagic {
		// offsets in the file are relative to the writer's output, which lacks the leading magic; the
		// Reader cannot skip the magic, so Info cannot be asked about such a file
		rep.Count("info_not_applicable_skipmagic", 1)
		return
	}
	checkInfo(c, rep, f, data, want)
}

// checkInfo compares Reader.Info with the summary groups the reference decoder sees.
func checkInfo(c *Case, rep *core.Report, f *refmcap.File, data []byte, want *refmcap.Aggregates) {
	var info *mcap.Info
	var ierr error
	// every third case asks for Info on a Reader that has already served a filtered, index-based
	// Messages call: what Info reports must not depend on what the Reader was used for before
	afterMessages := c.Index%3 == 1
	p := core.Safe(func() {
		r, err := mcap.NewReader(bytes.NewReader(withMagic(c, data)))
		if err != nil {
			ierr = err
			return
		}
		defer r.Close()
		if afterMessages {
			opts := []mcap.ReadOpt{mcap.AfterNanos(want.MessageStartTime/2 + want.MessageEndTime/2), mcap.InOrder(mcap.ReadOrder(c.Index % 3))}
			if ts := c.W.Topics(); len(ts) > 0 {
				opts = append(opts, mcap.WithTopics(ts[:1]))
			}
			if it, err := r.Messages(opts...); err == nil {
				_, _, _, _ = it.NextInto(nil)
			}
		}
		info, ierr = r.Info()
	})
	if afterMessages {
		rep.Count("info_calls_after_filtered_messages", 1)
	}
	if p != nil {
		rep.Violate("info-panic", fmt.Sprintf("%s: Info panicked: %v", c.Describe(), p), c.Witness())
		return
	}
	if ierr != nil {
		rep.Violate("info-error", fmt.Sprintf("%s: Info failed: %v", c.Describe(), ierr), c.Witness())
		return
	}
	rep.Count("info_calls", 1)
	const shift = uint64(0)
	var bad []string
	// statistics
	if !c.K.SkipStatistics {
		if kind, msg := statsMismatch("Info.Statistics", info.Statistics, want, false); kind != "" {
			rep.Violate("info-"+kind, c.Describe()+": "+msg, c.Witness())
			return
		}
	} else if info.Statistics != nil {
		bad = append(bad, "Info.Statistics present although the file has no statistics record")
	}
	// Info.ChannelCounts(): messages per topic, summed over the channels that share the topic
	if !c.K.SkipStatistics && !c.K.SkipRepeatedChannelInfos && info.Statistics != nil {
		wantTopic := map[string]uint64{}
		for k := range c.W.Ops {
			if ch := c.W.Ops[k].Channel; ch != nil {
				if n, ok := want.ChannelCounts[ch.ID]; ok && !seenChan(c.W.Ops[:k], ch.ID) {
					wantTopic[ch.Topic] += n
				}
			}
		}
		var got map[string]uint64
		if p := core.Safe(func() { got = info.ChannelCounts() }); p != nil {
			rep.Violate("info-panic", fmt.Sprintf("%s: Info.ChannelCounts panicked: %v", c.Describe(), p), c.Witness())
			return
		}
		rep.Count("info_channelcounts_topics_compared", int64(len(wantTopic)))
		for t, n := range wantTopic {
			if got[t] != n {
				bad = append(bad, fmt.Sprintf("Info.ChannelCounts()[%q] = %d, the channels on that topic carry %d messages", t, got[t], n))
				break
			}
		}
	}
	// channels / schemas
	sch := f.SummaryRecs(refmcap.OpSchema)
	if len(info.Schemas) != len(distinctIDs(sch)) {
		bad = append(bad, fmt.Sprintf("Info.Schemas has %d entries, summary lists %d", len(info.Schemas), len(distinctIDs(sch))))
	}
	for _, r := range sch {
		s := r.Parsed.(*refmcap.Schema)
		if g, ok := info.Schemas[s.ID]; !ok || drive.CanonSchema(g) != drive.CanonSchemaR(s) {
			bad = append(bad, fmt.Sprintf("Info.Schemas[%d] differs from the summary record", s.ID))
			break
		}
	}
	chs := f.SummaryRecs(refmcap.OpChannel)
	if len(info.Channels) != len(distinctIDs(chs)) {
		bad = append(bad, fmt.Sprintf("Info.Channels has %d entries, summary lists %d", len(info.Channels), len(distinctIDs(chs))))
	}
	for _, r := range chs {
		s := r.Parsed.(*refmcap.Channel)
		if g, ok := info.Channels[s.ID]; !ok || drive.CanonChannel(g) != drive.CanonChannelR(s) {
			bad = append(bad, fmt.Sprintf("Info.Channels[%d] differs from the summary record", s.ID))
			break
		}
	}
	if !c.K.SkipRepeatedSchemas && len(info.Schemas) != len(want.SchemaIDs) {
		bad = append(bad, fmt.Sprintf("Info lists %d schemas, %d were written", len(info.Schemas), len(want.SchemaIDs)))
	}
	if !c.K.SkipRepeatedChannelInfos && len(info.Channels) != len(want.ChannelIDs) {
		bad = append(bad, fmt.Sprintf("Info lists %d channels, %d were written", len(info.Channels), len(want.ChannelIDs)))
	}
	// chunk indexes
	cis := f.SummaryRecs(refmcap.OpChunkIndex)
	chunkIndexListed := len(info.ChunkIndexes) == len(cis)
	if chunkIndexListed {
		for i, r := range cis {
			x := r.Parsed.(*refmcap.ChunkIndex)
			g := info.ChunkIndexes[i]
			if g.ChunkStartOffset != x.ChunkStartOffset+shift || g.ChunkLength != x.ChunkLength || g.MessageStartTime != x.MessageStartTime || g.MessageEndTime != x.MessageEndTime ||
				string(g.Compression) != x.Compression || g.CompressedSize != x.CompressedSize || g.UncompressedSize != x.UncompressedSize || g.MessageIndexLength != x.MessageIndexLength ||
				len(g.MessageIndexOffsets) != len(x.MessageIndexOffsets) {
				if shift == 0 {
					bad = append(bad, fmt.Sprintf("Info.ChunkIndexes[%d] differs from the chunk index record", i))
				}
				break
			}
		}
	} else {
		// the recorded summary-order/no-channel filtering defect prunes chunk indexes; classify precisely
		kind := "info-chunk-indexes"
		if len(info.ChunkIndexes) < len(cis) && c.K.SkipRepeatedChannelInfos && !c.K.SkipMessageIndexing {
			kind = "info-chunk-indexes-pruned-without-channels"
		}
		rep.Violate(kind, fmt.Sprintf("%s: Info.ChunkIndexes has %d entries, the summary holds %d chunk index records", c.Describe(), len(info.ChunkIndexes), len(cis)), c.Witness())
		return
	}
	if len(cis) != int(want.ChunkCount) && !c.K.SkipChunkIndex {
		bad = append(bad, fmt.Sprintf("summary holds %d chunk indexes for %d chunks", len(cis), want.ChunkCount))
	}
	// attachment / metadata indexes
	ais := f.SummaryRecs(refmcap.OpAttachmentIndex)
	if len(info.AttachmentIndexes) != len(ais) {
		bad = append(bad, fmt.Sprintf("Info.AttachmentIndexes has %d entries, summary %d", len(info.AttachmentIndexes), len(ais)))
	} else {
		for i, r := range ais {
			x := r.Parsed.(*refmcap.AttachmentIndex)
			g := info.AttachmentIndexes[i]
			if g.Offset != x.Offset+shift || g.Length != x.Length || g.LogTime != x.LogTime || g.CreateTime != x.CreateTime || g.DataSize != x.DataSize || g.Name != x.Name || g.MediaType != x.MediaType {
				if shift == 0 {
					bad = append(bad, fmt.Sprintf("Info.AttachmentIndexes[%d] differs from the record", i))
				}
				break
			}
		}
	}
	if !c.K.SkipAttachmentIndex && len(ais) != int(want.AttachmentCount) {
		bad = append(bad, fmt.Sprintf("%d attachment indexes for %d attachments", len(ais), want.AttachmentCount))
	}
	mis := f.SummaryRecs(refmcap.OpMetadataIndex)
	if len(info.MetadataIndexes) != len(mis) {
		bad = append(bad, fmt.Sprintf("Info.MetadataIndexes has %d entries, summary %d", len(info.MetadataIndexes), len(mis)))
	} else {
		for i, r := range mis {
			x := r.Parsed.(*refmcap.MetadataIndex)
			g := info.MetadataIndexes[i]
			if g.Offset != x.Offset+shift || g.Length != x.Length || g.Name != x.Name {
				if shift == 0 {
					bad = append(bad, fmt.Sprintf("Info.MetadataIndexes[%d] differs from the record", i))
				}
				break
			}
		}
	}
	if !c.K.SkipMetadataIndex && len(mis) != int(want.MetadataCount) {
		bad = append(bad, fmt.Sprintf("%d metadata indexes for %d metadata records", len(mis), want.MetadataCount))
	}
	if len(bad) > 0 {
		rep.Violate("info", fmt.Sprintf("%s: %v", c.Describe(), bad), c.Witness())
	}
}

func distinctIDs(recs []*refmcap.Rec) map[uint16]bool {
	out := map[uint16]bool{}
	for _, r := range recs {
		switch v := r.Parsed.(type) {
		case *refmcap.Schema:
			out[v.ID] = true
		case *refmcap.Channel:
			out[v.ID] = true
		}
	}
	return out
}

// targetedC08Case builds the stateful shapes named in the property: first message at time 0 followed by
// later chunks, out-of-order times across chunks, trailing chunk with only schema/channel records.
func targetedC08Case(ctx *core.Ctx, i int) *Case {
	r := gen.Rng(ctx.Seed, "c08", i)
	c := &Case{Index: 2_000_000 + i, Seed: ctx.Seed, Class: 0}
	c.Shape = gen.Shape{Schemas: 1 + r.Intn(2), Channels: 1 + r.Intn(4), Messages: 2 + r.Intn(20), Attachments: r.Intn(2), Metadata: r.Intn(2), MaxPayload: 30,
		TimeMode: []string{"zerofirst", "smallrand", "desc", "boundary", "ties"}[r.Intn(5)], MaxLongStr: 20, ManyMapKeys: 2, Rewrites: r.Intn(2) == 0, TrailingChannels: r.Intn(2) == 0}
	c.W = gen.RandWorkload(r, c.Shape)
	c.K = gen.Config{Chunked: r.Intn(6) != 0, ChunkSize: []int64{1, 60, 200, 1 << 20}[r.Intn(4)], Compression: []string{"", "zstd", "lz4"}[r.Intn(3)], IncludeCRC: r.Intn(2) == 0}
	if r.Intn(3) == 0 {
		c.K.SetFlags(r.Intn(256) &^ 2) // statistics stay enabled
	}
	return c
}

func RunC08(ctx *core.Ctx, rep *core.Report) {
	rep.Rule = "same (workload, configuration) stream as C01 plus targeted stateful shapes (first message at log time 0 then more chunks, descending times across chunks, trailing message-less chunk, channels without messages, re-written records, unchunked). " +
		"Writer.Statistics after Close, the statistics record decoded by the reference decoder and Reader.Info (on a fresh Reader, and on a Reader that has already served a filtered index-based Messages call) are compared with aggregates recomputed from the call log; Info's listings with the summary groups the reference decoder sees. " +
		"distinct_nontrivial counts distinct (shape, configuration) pairs with at least one message."
	rep.Assumptions = []string{"call log is ground truth; chunk count and summary groups come from the reference decoder"}
	n, cross := writeFamilyCases(ctx, 2500, 80000)
	t := ctx.Pick(1500, 50000)
	core.Parallel(ctx, rep, n+cross+t, func(i int) {
		rep.Eval(1)
		if i < n+cross {
			checkC08Case(caseAt(ctx, "write", i, n), rep)
		} else {
			checkC08Case(targetedC08Case(ctx, i-n-cross), rep)
		}
	})
}

// seenChan reports whether an earlier op already registered the channel id (re-written identical records).
func seenChan(ops []refmcap.Item, id uint16) bool {
	for k := range ops {
		if ch := ops[k].Channel; ch != nil && ch.ID == id {
			return true
		}
	}
	return false
}
