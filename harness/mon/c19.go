package mon

import (
	"bytes"
	"encoding/hex"
	"encoding/json"
	"fmt"
	"hash/crc32"
	"math/rand"
	"regexp"
	"runtime/debug"
	"sort"
	"strconv"
	"strings"

	"github.com/foxglove/mcap/go/ros/ros1msg"

	"verifharness/core"
	"verifharness/gen"
	"verifharness/rosgen"
)

// C19: ROS 1 message definitions parse to the tree they describe, and parsing always terminates.

// c19Aux travels in WorkItem.Aux (JSON).
type c19Aux struct {
	Package  string            `json:"package"`
	Valid    bool              `json:"valid,omitempty"` // compare with Expected
	Tab      bool              `json:"tab,omitempty"`   // type and name separated by tabs only
	Expected []rosgen.ExpField `json:"expected,omitempty"`
}

const c19Entry = "ParseMessageDefinition"

// c19MaxStack is the stack bound of the c19 worker. The framework default (256 MiB) makes every
// stack exhaustion cost 3..15 CPU-seconds (the runtime copies and scans the stack as it doubles);
// 64 MiB still allows about 147 000 nested records (456 bytes per level of resolveDependentFields)
// and keeps a worker death at about one CPU-second.
const c19MaxStack = 64 << 20

// ---- worker side

func c19Clip(s string, n int) string {
	s = strings.NewReplacer("\n", "\\n", "\r", "\\r").Replace(s)
	if len(s) > n {
		s = s[:n] + "..."
	}
	return s
}

// c19DiffType returns the path of the first difference between a parsed type and the expected one ("" if none).
func c19DiffType(got *ros1msg.Type, want *rosgen.ExpType, path string) string {
	switch {
	case got.BaseType != want.BaseType:
		return fmt.Sprintf("%s.BaseType: got %q want %q", path, got.BaseType, want.BaseType)
	case got.IsArray != want.IsArray:
		return fmt.Sprintf("%s.IsArray: got %v want %v", path, got.IsArray, want.IsArray)
	case got.FixedSize != want.FixedSize:
		return fmt.Sprintf("%s.FixedSize: got %d want %d", path, got.FixedSize, want.FixedSize)
	case got.IsRecord != want.IsRecord:
		return fmt.Sprintf("%s.IsRecord: got %v want %v", path, got.IsRecord, want.IsRecord)
	case (got.Items == nil) != (want.Items == nil):
		return fmt.Sprintf("%s.Items: got nil=%v want nil=%v", path, got.Items == nil, want.Items == nil)
	}
	if d := c19DiffFields(got.Fields, want.Fields, path+".Fields"); d != "" {
		return d
	}
	if got.Items != nil {
		return c19DiffType(got.Items, want.Items, path+".Items")
	}
	return ""
}

func c19DiffFields(got []ros1msg.Field, want []rosgen.ExpField, path string) string {
	for i := 0; i < len(got) && i < len(want); i++ {
		p := fmt.Sprintf("%s[%d]", path, i)
		if got[i].Name != want[i].Name {
			return fmt.Sprintf("%s.Name: got %q want %q", p, got[i].Name, want[i].Name)
		}
		if d := c19DiffType(&got[i].Type, &want[i].Type, p+"("+want[i].Name+").Type"); d != "" {
			return d
		}
	}
	if len(got) != len(want) {
		return fmt.Sprintf("%s: got %d fields want %d", path, len(got), len(want))
	}
	return ""
}

func c19Entries(it *WorkItem) []entry {
	return []entry{{c19Entry, func(it *WorkItem) string {
		var aux c19Aux
		if len(it.Aux) > 0 {
			if err := json.Unmarshal(it.Aux, &aux); err != nil {
				return "harness-error: aux unreadable: " + err.Error()
			}
		}
		debug.SetMaxStack(c19MaxStack)
		fields, err := ros1msg.ParseMessageDefinition(aux.Package, it.Data)
		if !aux.Valid {
			if err != nil {
				return "error"
			}
			return "value"
		}
		if err != nil {
			return "error: " + c19Clip(err.Error(), 300)
		}
		if d := c19DiffFields(fields, aux.Expected, "fields"); d != "" {
			return "mismatch: " + c19Clip(d, 300)
		}
		return "match"
	}}}
}

func init() {
	workerModes["c19"] = c19Entries
	Registry["C19"] = Monitor{Run: RunC19, Replay: ReplayC19}
}

// ---- valid definitions (parent side)

// c19ValidCase deterministically builds valid case i: graph, rendered text, tab-only flag.
func c19ValidCase(ctx *core.Ctx, i int) (*rosgen.Graph, []byte, bool) {
	r := gen.Rng(ctx.Seed, "c19valid", i)
	g := rosgen.RandGraph(r)
	tab := r.Intn(33) == 0
	text := g.Render(r, tab)
	return g, text, tab
}

func c19ValidItem(ctx *core.Ctx, i int) (WorkItem, *rosgen.Graph) {
	g, text, tab := c19ValidCase(ctx, i)
	aux, _ := json.Marshal(c19Aux{Package: g.Top.Pkg, Valid: true, Tab: tab, Expected: g.Expected()})
	kind := "valid"
	if tab {
		kind = "valid-tab"
	}
	return WorkItem{ID: i, Kind: kind, Data: text, Aux: aux}, g
}

func c19CountGraph(agg map[string]int64, g *rosgen.Graph) {
	st := &g.Stats
	agg[fmt.Sprintf("graphs_depth_%d", st.Depth)]++
	nf := st.TopFields
	if nf > 8 {
		nf = 8
	}
	agg[fmt.Sprintf("graphs_top_fields_%d%s", nf, map[bool]string{true: "_or_more"}[nf == 8])]++
	agg["sections"] += int64(st.Sections)
	agg["defined_fields"] += int64(st.DefinedFields)
	agg["expanded_tree_fields"] += int64(st.ExpandedFields)
	agg["primitive_fields"] += int64(st.PrimFields)
	agg["record_fields"] += int64(st.RecordFields)
	agg["arrays_fixed_primitive"] += int64(st.FixedPrimArrays)
	agg["arrays_variable_primitive"] += int64(st.VarPrimArrays)
	agg["arrays_fixed_record"] += int64(st.FixedRecordArrays)
	agg["arrays_variable_record"] += int64(st.VarRecordArrays)
	agg["header_uses"] += int64(st.HeaderUses)
	agg["refs_qualified"] += int64(st.QualifiedRefs)
	agg["refs_unqualified_package_relative"] += int64(st.UnqualifiedRefs)
	agg["refs_unqualified_in_package_other_than_top_level"] += int64(st.ParentRelativeRefs)
	agg["refs_unqualified_short_name_also_in_other_package"] += int64(st.SameNameOtherPkg)
	agg["refs_exact_packageless"] += int64(st.PackagelessRefs)
	agg["shared_types"] += int64(st.SharedTypes)
	agg["unused_sections"] += int64(st.UnusedSections)
	agg["empty_types"] += int64(st.EmptyTypes)
	agg["constants"] += int64(st.Constants)
	agg["string_constants_with_hash_or_equals"] += int64(st.StringConstHashEq)
	agg["comment_lines"] += int64(st.CommentLines)
	agg["trailing_comments"] += int64(st.TrailingComments)
	agg["trailing_comments_with_equals"] += int64(st.TrailingCommentEq)
	agg["blank_lines"] += int64(st.BlankLines)
	agg["indented_separators"] += int64(st.IndentedSeparators)
	if st.ParentRelativeRefs > 0 {
		agg["graphs_with_parent_package_relative_ref"]++
	}
	if st.HeaderDecoy {
		agg["graphs_with_non_std_msgs_type_named_Header"]++
	}
	if st.TabOnly {
		agg["tab_separated_definitions"]++
	}
	if st.NoFinalNewline {
		agg["definitions_without_final_newline"]++
	}
	if g.Top.Pkg == "" {
		agg["graphs_top_level_without_package"]++
	}
	for p, n := range st.Primitives {
		agg["prim_"+p] += int64(n)
	}
	for l, n := range st.SeparatorLens {
		agg[fmt.Sprintf("separator_len_%d", l)] += int64(n)
	}
}

// ---- hostile inputs (parent side)

type c19Input struct {
	kind string
	pkg  string
	text []byte
}

const c19Sep = "================================================================================\n"

// c19Chain renders an acyclic reference chain T1 -> T2 -> ... -> Tn.
func c19Chain(n int, qualified bool, array string) []byte {
	var b bytes.Buffer
	ref := func(i int) string {
		if qualified {
			return "p/T" + strconv.Itoa(i)
		}
		return "T" + strconv.Itoa(i)
	}
	b.WriteString(ref(1) + array + " f\n")
	for i := 1; i <= n; i++ {
		b.WriteString(c19Sep)
		b.WriteString("MSG: p/T" + strconv.Itoa(i) + "\n")
		if i < n {
			b.WriteString(ref(i+1) + array + " f\n")
		} else {
			b.WriteString("int32 x\n")
		}
	}
	return b.Bytes()
}

// c19Diamond renders depth levels where every type has two fields of the next type (tree of 2^depth leaves).
func c19Diamond(depth int) []byte {
	var b bytes.Buffer
	b.WriteString("p/D1 l\np/D1 r\n")
	for i := 1; i <= depth; i++ {
		b.WriteString(c19Sep + "MSG: p/D" + strconv.Itoa(i) + "\n")
		if i < depth {
			fmt.Fprintf(&b, "D%d l\nD%d r\n", i+1, i+1)
		} else {
			b.WriteString("uint8 x\n")
		}
	}
	return b.Bytes()
}

// c19Crafted is the fixed list of hand-built hostile inputs. The inputs whose types refer to themselves
// (kinds starting with "cycle-") are the only generated inputs expected to exhaust the stack; their
// number is fixed (the same in both tiers) because every one costs a worker restart.
func c19Crafted() []c19Input {
	var out []c19Input
	add := func(kind, pkg, text string) { out = append(out, c19Input{kind, pkg, []byte(text)}) }
	crlf := func(s string) string { return strings.ReplaceAll(s, "\n", "\r\n") }
	// self- and mutually-referential types
	cycles := []struct{ name, pkg, text string }{
		{"self-direct-qualified", "p", "p/A a\n" + c19Sep + "MSG: p/A\np/A again\nint32 x\n"},
		{"self-direct-unqualified", "p", "A a\n" + c19Sep + "MSG: p/A\nA again\n"},
		{"self-variable-array", "p", "A[] a\n" + c19Sep + "MSG: p/A\nA[] again\n"},
		{"self-fixed-array", "p", "p/A[3] a\n" + c19Sep + "MSG: p/A\np/A[3] again\n"},
		{"self-packageless", "", "Foo f\n===\nMSG: Foo\nFoo f\n"},
		{"self-header", "", "Header h\n===\nMSG: std_msgs/Header\nHeader h\nuint32 seq\ntime stamp\nstring frame_id\n"},
		{"self-top-level-name", "p", "Top t\nint32 x\n===\nMSG: p/Top\nTop t\nint32 x\n"},
		{"mutual-qualified", "p", "p/A a\n" + c19Sep + "MSG: p/A\np/B b\n" + c19Sep + "MSG: p/B\np/A a\n"},
		{"mutual-unqualified", "p", "A a\n" + c19Sep + "MSG: p/A\nB b\n" + c19Sep + "MSG: p/B\nA a\n"},
		{"mutual-arrays", "p", "A[] a\n" + c19Sep + "MSG: p/A\nB[2] b\n" + c19Sep + "MSG: p/B\nA[] a\nstring s\n"},
		{"mutual-cross-package", "p", "q/B b\n" + c19Sep + "MSG: q/B\np/A a\nint8 i\n" + c19Sep + "MSG: p/A\nq/B b\n"},
		{"three-types", "p", "A a\n=\nMSG: p/A\nB b\n=\nMSG: p/B\nC c\n=\nMSG: p/C\nA a\n"},
		{"below-valid-prefix", "geometry_msgs", "Header header\nPose pose\n" + c19Sep + "MSG: std_msgs/Header\nuint32 seq\ntime stamp\nstring frame_id\n" + c19Sep +
			"MSG: geometry_msgs/Pose\nQuaternion orientation\nPoint position\n" + c19Sep + "MSG: geometry_msgs/Point\nfloat64 x\nfloat64 y\nfloat64 z\n" + c19Sep +
			"MSG: geometry_msgs/Quaternion\nPose[] parent # oops\nfloat64 x\nfloat64 y\nfloat64 z\nfloat64 w\n"},
		{"self-with-comments-and-tabs", "p", "# top\n  p/A \t a # c\n" + c19Sep + "MSG: p/A\t\n\t# comment\nint32 K=1\n\tp/A  again\t#x\n"},
	}
	for _, c := range cycles {
		add("cycle-"+c.name, c.pkg, c.text)
	}
	for _, c := range cycles[:6] {
		add("cycle-"+c.name+"-crlf", c.pkg, crlf(c.text))
	}
	for _, c := range cycles[7:10] {
		add("cycle-"+c.name+"-nofinalnewline", c.pkg, strings.TrimSuffix(c.text, "\n"))
	}
	// long acyclic chains and wide trees
	for _, n := range []int{200, 5000} {
		add(fmt.Sprintf("chain-%d-qualified", n), "p", string(c19Chain(n, true, "")))
		add(fmt.Sprintf("chain-%d-unqualified", n), "p", string(c19Chain(n, false, "")))
		add(fmt.Sprintf("chain-%d-arrays", n), "p", string(c19Chain(n, false, "[]")))
		add(fmt.Sprintf("chain-%d-missing-package", n), "other", string(c19Chain(n, false, "")))
	}
	add("diamond-12", "p", string(c19Diamond(12)))
	add("diamond-16", "p", string(c19Diamond(16)))
	// brackets
	for _, t := range []string{"a]b[", "int32]3[", "][", "]x[", "]][[", "p/A]3[", "int32[", "int32]", "int32[[3]]", "int32[3", "int32[3]]", "int32[][]", "int32[3][4]", "[]", "[3]", "[", "]",
		"int32[]]", "int32[[]", "p/A[", "p/A]", "Header]0[", "int32]", "]int32[3]", "in[t32]", "[int32]", "int32[3]x", "int32[3]/x", "p[3]/A"} {
		add("brackets", "p", t+" x\n")
		add("brackets-in-dependency", "p", "p/A a\n"+c19Sep+"MSG: p/A\n"+t+" x\n")
	}
	add("brackets-panic-then-more", "p", "int32 ok\na]b[ x\nint32 more\n")
	// array sizes
	for _, s := range []string{"99999999999999999999", "9223372036854775807", "9223372036854775808", "2147483648", "4294967296", "-1", "-9223372036854775808", "-0", "+3", "0x10", " 3", "3 ", "1e3",
		"٣", "0", "00", "007", "1_000", "3.0", "", "a", "[", "]"} {
		add("array-size", "p", "int32["+s+"] x\n")
		add("array-size-record", "p", "A["+s+"] x\n"+c19Sep+"MSG: p/A\nint32 v\n")
	}
	// missing dependencies
	for _, t := range []string{"Foo f", "p/Foo f", "q/Foo f", "Header h", "std_msgs/Header h", "Foo[] f", "Foo[3] f", "/Foo f", "p/ f", "/ f", "p/q/Foo f", "//", "Foo/ f", "header h", "String s", "int f", "uint8_t f"} {
		add("missing-dependency", "p", t+"\n")
		add("missing-dependency-nopkg", "", t+"\n")
		add("missing-dependency-nested", "p", "p/A a\n"+c19Sep+"MSG: p/A\n"+t+"\n")
	}
	add("empty-package-slash-section", "", "Foo f\n===\nMSG: /Foo\nint32 x\n")
	// empty input, separators, MSG lines
	for _, t := range []string{"", "\n", "\n\n\n", " ", "\t", "=", "=\n", "===", "===\n", "===\n===\n===\n", "  ===  \n", c19Sep, c19Sep + c19Sep, "===\n\n", "===\nint32 x\n", "= =\n", "=MSG: p/A\n",
		"MSG:", "MSG: ", "MSG: p/A", "MSG: p/A\nint32 x", "x y\n===\nMSG:\nint32 a\n", "===\nMSG: \n", "===\nMSG:p/A\nint32 x\n", "p/A a\n===\nMSG:p/A\nint32 x\n", "p/A a\n===\nMSG:  p/A\nint32 x\n",
		"p/A a\n===\nmsg: p/A\nint32 x\n", "p/A a\n===\n\nMSG: p/A\nint32 x\n", "p/A a\n===\n# c\nMSG: p/A\nint32 x\n", "p/A a\n===\nMSG: p/A p/B\nint32 x\n", "p/A a\n===\nMSG: MSG: p/A\nint32 x\n",
		"A a\n===\nMSG: A\nint32 x\n===\nMSG: p/A\nint64 y\n"} {
		add("separators-and-headers", "p", t)
	}
	add("duplicate-section", "p", "p/A a\n"+c19Sep+"MSG: p/A\nint32 x\n"+c19Sep+"MSG: p/A\nstring y\n")
	add("duplicate-section-identical", "p", "p/A a\n"+c19Sep+"MSG: p/A\nint32 x\n"+c19Sep+"MSG: p/A\nint32 x\n")
	add("duplicate-section-header-only", "p", "p/A a\n"+c19Sep+"MSG: p/A\n"+c19Sep+"MSG: p/A\n"+c19Sep+"MSG: p/A\n")
	add("section-named-as-primitive", "p", "int32 x\nstring[] s\n"+c19Sep+"MSG: int32\nstring y\n"+c19Sep+"MSG: string[]\nint32 z\n")
	add("section-named-with-brackets", "p", "Foo[] f\n"+c19Sep+"MSG: Foo[]\nint32 z\n")
	add("many-sections", "p", "p/A a\n"+strings.Repeat(c19Sep+"MSG: p/A\nint32 x\n", 20000))
	add("many-distinct-sections", "p", func() string {
		var b strings.Builder
		b.WriteString("T0 a\n")
		for i := 0; i < 20000; i++ {
			fmt.Fprintf(&b, "===\nMSG: p/T%d\nint32 x\n", i)
		}
		return b.String()
	}())
	add("many-fields", "p", strings.Repeat("int32 x\n", 100000))
	add("many-record-fields", "p", strings.Repeat("A a\n", 20000)+c19Sep+"MSG: p/A\nint32 x\nstring[] s\n")
	// malformed field lines
	for _, t := range []string{"int32", "int32 ", " x", "int32 9x", "int32 _x", "int32 x y z", "int32 é", "int32\tx", "int32\t\tx # a b", "int32\u00a0x", "int32\u2028x", "int32\u3000x y", "int32\vx", "int32\fx", "int32 x=", "=x", "int32 x =", "#", "##", "# =",
		"int32 x#", "int32 x#=", "string S=#", "string S#=", "int32  x", "int32 x\\", "\"int32\" x", "int32, x", "int32;x", "int32 x;", "int32: x", "int32 x[3]", "int32 x[]", "x int32", "INT32 x", "Int32 x", "std_msgs/String s",
		"\xff\xfe x", "int32 \xff", "\xef\xbb\xbfint32 x", "int32 x\x00", "\x00", "int32\x00x", "p/A\x00 a", "int32 x\x00y", "\x00\x00\x00\x00", "int32 x\r", "\rint32 x", "int32 x\r\rint32 y"} {
		add("field-lines", "p", t+"\n")
		add("field-lines-no-newline", "p", "int32 ok\n"+t)
	}
	// CRLF line endings on well-formed definitions
	add("crlf", "p", crlf("# c\nint32 x\nA a\n"+c19Sep+"MSG: p/A\nstring s\nHeader h\n"+c19Sep+"MSG: std_msgs/Header\nuint32 seq\ntime stamp\nstring frame_id\n"))
	add("crlf-mixed", "p", "int32 x\r\nA a\n===\r\nMSG: p/A\nstring s\r\n")
	add("cr-only", "p", "int32 x\rA a\r===\rMSG: p/A\rstring s\r")
	// very long lines (1 MiB)
	big := 1 << 20
	add("long-line-name", "p", "int32 "+strings.Repeat("x", big)+"\n")
	add("long-line-type", "p", strings.Repeat("a", big)+" x\n")
	add("long-line-qualified-type", "p", strings.Repeat("a", big/2)+"/"+strings.Repeat("b", big/2)+" x\n")
	add("long-line-comment", "p", "#"+strings.Repeat("c", big)+"\nint32 x\n")
	add("long-line-trailing-comment", "p", "int32 x #"+strings.Repeat("=", big)+"\n")
	add("long-line-array-size", "p", "int32["+strings.Repeat("9", big)+"] x\n")
	add("long-line-separator", "p", "p/A a\n"+strings.Repeat("=", big)+"\nMSG: p/A\nint32 x\n")
	add("long-line-spaces", "p", "int32"+strings.Repeat(" ", big)+"x\n")
	add("long-line-tabs", "p", "int32"+strings.Repeat("\t", big)+"x\n")
	add("long-line-no-match", "p", strings.Repeat("a\t", big/2)+"\n")
	add("long-line-brackets", "p", strings.Repeat("]", big/2)+strings.Repeat("[", big/2)+" x\n")
	add("long-line-msg-header", "p", "p/A a\n===\nMSG: "+strings.Repeat("p/A", big/3)+"\nint32 x\n")
	add("long-line-constant", "p", "string S="+strings.Repeat("#=", big/2)+"\nint32 x\n")
	add("long-package", strings.Repeat("p", big), "A a\n===\nMSG: p/A\nint32 x\n")
	add("nul-package", "p\x00", "A a\n===\nMSG: p\x00/A\nint32 x\n")
	add("many-newlines", "p", strings.Repeat("\n", big))
	add("many-hashes", "p", strings.Repeat("#", big))
	return out
}

var c19Alphabet = []byte("aAbZ09_/[]=# \t\n\n\r:MSG.\x00-")
var c19TopTokens = []string{"MSG: ", "===", "int32", "string", "Header", "std_msgs/Header", "q/Z", "Z", "[", "]", "[]", "[3]", "#", "=", "/", " ", " ", "\t", "\n", "\n", "a", "B", "p/A", "Foo", "x", "\r\n", "-1", "\x00"}
var c19SectionTokens = []string{"MSG: ", "MSG: q/Z", "MSG: std_msgs/Header", "MSG: p/Z", "===", "===\n", "int32", "string", "time", "uint8", "[", "]", "[]", "[3]", "#", "=", "/", " ", " ", "\t", "\n", "\n", "a", "B",
	"p/A", "Foo", "x", "\r\n", "-1", "\x00"}

func c19RandomLen(r *rand.Rand) int {
	if r.Intn(4) == 0 {
		return r.Intn(5000)
	}
	return []int{0, 1, 2, 5, 17, 40, 80, 300, 2000}[r.Intn(9)]
}

// c19Dag renders random, mostly ill-formed sections T0..Tk in which section Ti only ever names Tj with
// j > i (so no reference cycle can arise), with hostile array suffixes, junk lines, duplicated and
// missing sections.
func c19Dag(r *rand.Rand) []byte {
	k := 1 + r.Intn(8)
	suffixes := []string{"", "", "", "[]", "[3]", "[", "]", "]3[", "[-1]", "[99999999999999999999]", "[][]", "[0]", "[ 2]"}
	junk := []string{"", "#", "# c", "int32", "= =", "x=1", "int32 X=3", "MSG: p/T0", "garbage line here", "\t", "int32 9", "a]b[ x", "[ ]", "p/ x", "/T1 x", "string S=a#b=c"}
	var b bytes.Buffer
	body := func(i int) {
		for n := r.Intn(6); n > 0; n-- {
			var t string
			switch x := r.Intn(10); {
			case x < 3:
				t = rosgen.Primitives[r.Intn(len(rosgen.Primitives))]
			case x < 7 && i+1 <= k+1:
				j := i + 1 + r.Intn(k+1-i) // may be k+1: never defined
				t = "T" + strconv.Itoa(j)
				if r.Intn(2) == 0 {
					t = "p/" + t
				}
			case x < 8:
				t = "Header"
			case x < 9:
				t = "q/Missing"
			default:
				b.WriteString(junk[r.Intn(len(junk))] + "\n")
				continue
			}
			sep := []string{" ", " ", "  ", "\t", " \t"}[r.Intn(5)]
			fmt.Fprintf(&b, "%s%s%sf%d", t, suffixes[r.Intn(len(suffixes))], sep, n)
			if r.Intn(6) == 0 {
				b.WriteString(" # c=1")
			}
			b.WriteString([]string{"\n", "\n", "\n", "\r\n", " \n"}[r.Intn(5)])
		}
	}
	body(0)
	for n := r.Intn(2 * k); n > 0; n-- {
		i := 1 + r.Intn(k)
		b.WriteString(strings.Repeat("=", 1+r.Intn(90)) + "\n")
		switch r.Intn(12) {
		case 0:
			fmt.Fprintf(&b, "MSG: T%d\n", i)
		case 1:
			fmt.Fprintf(&b, "MSG:p/T%d\n", i)
		default:
			fmt.Fprintf(&b, "MSG: p/T%d\n", i)
		}
		body(i)
	}
	if r.Intn(3) == 0 {
		b.WriteString("===\nMSG: std_msgs/Header\nuint32 seq\ntime stamp\nstring frame_id\n")
	}
	return b.Bytes()
}

func c19Mutate(r *rand.Rand, text []byte) ([]byte, string) {
	d := append([]byte(nil), text...)
	var ops []string
	structuralDeleted := false
	for n := 1 + r.Intn(4); n > 0; n-- {
		lines := bytes.SplitAfter(d, []byte("\n"))
		switch op := r.Intn(10); op {
		case 0:
			if len(d) > 0 {
				d[r.Intn(len(d))] ^= 1 << uint(r.Intn(8))
			}
			ops = append(ops, "bitflip")
		case 1:
			if len(d) > 0 {
				d[r.Intn(len(d))] = "[]=#/\n\t \x00:"[r.Intn(10)]
			}
			ops = append(ops, "setbyte")
		case 2:
			if len(lines) > 1 {
				i := r.Intn(len(lines))
				// deleting both a separator and a "MSG:" line could merge a section into one it refers to and
				// close a reference cycle; one of the two always stays as a barrier
				t := bytes.TrimSpace(lines[i])
				structural := bytes.HasPrefix(t, []byte("=")) || bytes.HasPrefix(t, []byte("MSG:"))
				if !structural || !structuralDeleted {
					structuralDeleted = structuralDeleted || structural
					lines = append(lines[:i:i], lines[i+1:]...)
					d = bytes.Join(lines, nil)
				}
			}
			ops = append(ops, "delline")
		case 3:
			if len(lines) > 0 {
				// duplicated in place: a line copied into another section could close a reference cycle
				i := r.Intn(len(lines))
				nl := append(append(append([][]byte(nil), lines[:i+1]...), lines[i]), lines[i+1:]...)
				d = bytes.Join(nl, nil)
			}
			ops = append(ops, "dupline")
		case 4:
			if len(d) > 0 {
				d = d[:r.Intn(len(d))]
			}
			ops = append(ops, "truncate")
		case 5, 6:
			ins := []string{"[", "]", "[]", "]x[", "[3]", "][", "[[", "]]"}[r.Intn(8)]
			i := r.Intn(len(d) + 1)
			d = append(append(append([]byte(nil), d[:i]...), ins...), d[i:]...)
			ops = append(ops, "bracket")
		case 7:
			if len(lines) > 1 {
				i := r.Intn(len(lines) - 1)
				lines[i], lines[i+1] = lines[i+1], lines[i]
				d = bytes.Join(lines, nil)
			}
			ops = append(ops, "swapadjacent")
		case 8:
			d = bytes.ReplaceAll(d, []byte("\n"), []byte("\r\n"))
			ops = append(ops, "crlf")
		case 9:
			if len(d) > 1 {
				i := r.Intn(len(d))
				j := i + r.Intn(min(len(d)-i, 12)) // short: cannot swallow a separator together with its MSG: line
				d = append(d[:i:i], d[j:]...)
			}
			ops = append(ops, "delrange")
		}
	}
	return d, strings.Join(ops, "+")
}

// c19FieldRe is the documented shape of a field line ("type, blanks with at least one space, name").
var c19FieldRe = regexp.MustCompile(`([^ \t]+)[ \t]* [ \t]*([a-zA-Z][a-zA-Z0-9_]*)`)

// c19PredictCycle tells whether resolving the definition from its top-level part runs into a type that is
// already being resolved. It is used on generated hostile inputs only, to keep the number of inputs
// that kill a worker fixed (every such input costs a restart and they all show the same defect); it
// plays no part in any verdict. It follows the resolution rules line by line, stops at the first line the
// parser would reject, and gives up (false) after 200 000 lines.
func c19PredictCycle(pkg string, data []byte) bool {
	var defs []string
	var cur strings.Builder
	for _, line := range strings.Split(string(data), "\n") {
		if strings.HasPrefix(strings.TrimSpace(line), "=") {
			defs = append(defs, cur.String())
			cur.Reset()
			continue
		}
		cur.WriteString(line + "\n")
	}
	if cur.Len() > 0 {
		defs = append(defs, cur.String())
	}
	if len(defs) < 2 {
		return false
	}
	deps := map[string]string{}
	for _, d := range defs[1:] {
		lines := strings.Split(d, "\n")
		deps[strings.TrimPrefix(strings.TrimSpace(lines[0]), "MSG: ")] = strings.Join(lines[1:], "\n")
	}
	prim := map[string]bool{}
	for _, p := range rosgen.Primitives {
		prim[p] = true
	}
	steps := 0
	onPath := map[[2]string]bool{}
	var walk func(pkg, body string) (cycle, stop bool)
	walk = func(pkg, body string) (bool, bool) {
		key := [2]string{pkg, body}
		if onPath[key] {
			return true, true
		}
		onPath[key] = true
		defer delete(onPath, key)
		for _, line := range strings.Split(body, "\n") {
			if steps++; steps > 200000 {
				return false, true
			}
			line = strings.TrimSpace(line)
			if line == "" || strings.HasPrefix(line, "#") || strings.Contains(strings.Split(line, "#")[0], "=") {
				continue
			}
			m := c19FieldRe.FindStringSubmatch(line)
			if len(m) < 3 {
				return false, true
			}
			t := m[1]
			if strings.Contains(t, "[") && strings.Contains(t, "]") {
				l, r := strings.Index(t, "["), strings.Index(t, "]")
				if r < l {
					return false, true
				}
				if size := t[l+1 : r]; size == "" {
					t = t[:l]
				} else if _, err := strconv.Atoi(size); err == nil {
					t = t[:l]
				}
			}
			if prim[t] {
				continue
			}
			fp, qualified := pkg, strings.Contains(t, "/")
			if qualified {
				fp = strings.Split(t, "/")[0]
			}
			sub, ok := deps[t]
			switch {
			case ok:
			case t == "Header":
				if sub, ok = deps["std_msgs/Header"]; !ok {
					return false, true
				}
			case !qualified:
				if sub, ok = deps[fp+"/"+t]; !ok {
					return false, true
				}
			}
			if c, stop := walk(fp, sub); c || stop {
				return c, true
			}
		}
		return false, false
	}
	c, _ := walk(pkg, defs[0])
	return c
}

// c19TopLevelOnly cuts a definition before its first separator line (no sections, hence no cycle).
func c19TopLevelOnly(data []byte) []byte {
	off := 0
	for _, line := range bytes.SplitAfter(data, []byte("\n")) {
		if bytes.HasPrefix(bytes.TrimSpace(line), []byte("=")) {
			break
		}
		off += len(line)
	}
	return data[:off]
}

// c19AccidentalCycles is the number of generated (not hand-built) hostile inputs per run that may contain a
// reference cycle; further ones are cut down to their top-level part.
const c19AccidentalCycles = 12

// c19HostileInput builds hostile input i (i counts after the crafted list).
func c19HostileInput(ctx *core.Ctx, i int, nBase int) c19Input {
	r := gen.Rng(ctx.Seed, "c19hostile", i)
	pkg := []string{"p", "p", "", "geometry_msgs", "q"}[r.Intn(5)]
	switch i % 10 {
	case 0:
		b := make([]byte, c19RandomLen(r))
		r.Read(b)
		return c19Input{"random-bytes", pkg, b}
	case 1:
		b := make([]byte, c19RandomLen(r))
		for k := range b {
			b[k] = c19Alphabet[r.Intn(len(c19Alphabet))]
		}
		return c19Input{"random-alphabet", pkg, b}
	case 2:
		// token soup; nested-type names can only be written before the first separator, so no section can
		// name itself or another section
		var b bytes.Buffer
		for n := r.Intn(40); n > 0; n-- {
			b.WriteString(c19TopTokens[r.Intn(len(c19TopTokens))])
		}
		b.WriteString("\n")
		for n := r.Intn(120); n > 0; n-- {
			b.WriteString(c19SectionTokens[r.Intn(len(c19SectionTokens))])
		}
		return c19Input{"random-tokens", pkg, b.Bytes()}
	case 3:
		return c19Input{"random-acyclic-sections", "p", c19Dag(r)}
	default:
		g, text, _ := c19ValidCase(ctx, r.Intn(nBase))
		d, _ := c19Mutate(r, text)
		return c19Input{"mutated-valid", g.Top.Pkg, d}
	}
}

// ---- verdicts

func c19Witness(it *WorkItem, label string) map[string]any {
	var aux c19Aux
	_ = json.Unmarshal(it.Aux, &aux)
	w := map[string]any{"input_kind": it.Kind, "package": aux.Package, "text_hex": hex.EncodeToString(it.Data), "id": it.ID, "stream": label, "valid": aux.Valid, "tab": aux.Tab,
		"text_preview": c19Preview(it.Data, 400)}
	if aux.Valid {
		w["expected"] = aux.Expected
	}
	return w
}

func c19Preview(b []byte, n int) string {
	if len(b) > n {
		return string(b[:n]) + fmt.Sprintf("...(%d bytes in all)", len(b))
	}
	return string(b)
}

// c19Family shortens an input kind to its family (the part before the first '-' of a hand-built kind).
func c19Family(kind string) string {
	switch {
	case strings.HasPrefix(kind, "valid"), strings.HasPrefix(kind, "random-"), kind == "mutated-valid":
		return kind
	}
	if i := strings.IndexByte(kind, '-'); i > 0 {
		return kind[:i]
	}
	return kind
}

func c19OutcomeClass(o string) string {
	if strings.HasPrefix(o, "panic:") {
		return o
	}
	return firstWord(o)
}

// c19Violations keeps the report readable: per run at most c19PerKindCap executions are listed for a
// kind that repeats by construction (every tab-only definition, every ']'-before-'[' input), so that
// the rarer kinds - every worker death in particular - are always listed within the framework's
// overall limit. Known findings are always passed on (they are only counted). All executions are
// counted per kind in the evidence ("violation_kinds").
type c19Violations struct{ seen map[string]int }

const c19PerKindCap = 12

func (v *c19Violations) report(rep *core.Report, kind, msg string, it *WorkItem, label string) {
	if v.seen == nil {
		v.seen = map[string]int{}
	}
	v.seen[kind]++
	core.NotePattern(rep, "violation_kinds", kind)
	limit := c19PerKindCap
	if strings.HasPrefix(kind, "fatal:") || kind == "cpu-budget-exceeded" || kind == "tree-mismatch" || kind == "valid-definition-rejected" {
		limit = 60
	}
	if v.seen[kind] <= limit || rep.IsKnown(kind) {
		rep.Violate(kind, msg, c19Witness(it, label))
		return
	}
	rep.Count("violations_beyond_per_kind_cap", 1)
}

// judgeC19 applies the oracle to every item of one round. Returns the number of items without a result.
func judgeC19(rep *core.Report, vio *c19Violations, items []WorkItem, results map[int]*ItemResult, label string) int {
	missing := 0
	for k := range items {
		it := &items[k]
		res := results[it.ID]
		if res == nil {
			missing++
			continue
		}
		rep.Eval(1)
		valid := strings.HasPrefix(it.Kind, "valid")
		tab := it.Kind == "valid-tab"
		group := "hostile_outcomes"
		if valid {
			group = "valid_outcomes"
		}
		desc := fmt.Sprintf("input %d (%s, %d bytes)", it.ID, it.Kind, len(it.Data))
		family := c19Family(it.Kind)
		if res.Fatal != "" {
			rep.Count("outcomes_worker_died", 1)
			core.NotePattern(rep, group, family+"=fatal")
			vio.report(rep, "fatal:"+res.Fatal, fmt.Sprintf("%s: the process died in %s: %s; definition starts %q", desc, res.Entry, res.Fatal, c19Preview(it.Data, 160)), it, label)
			continue
		}
		if res.Timeout {
			rep.Count("outcomes_cpu_budget_exceeded", 1)
			core.NotePattern(rep, group, family+"=cpu-budget-exceeded")
			vio.report(rep, "cpu-budget-exceeded", fmt.Sprintf("%s: %s consumed more than its CPU budget (%d s + %d s per GiB allocated) twice", desc, res.Entry, cpuBudgetSecs, cpuSecsPerGiB), it, label)
			continue
		}
		o, ok := res.Outcomes[c19Entry]
		if !ok {
			missing++
			continue
		}
		core.NotePattern(rep, group, family+"="+c19OutcomeClass(o))
		switch {
		case strings.HasPrefix(o, "panic:"):
			rep.Count("outcomes_panic", 1)
			vio.report(rep, o, fmt.Sprintf("%s: ParseMessageDefinition panicked: %s; definition starts %q", desc, strings.TrimPrefix(o, "panic:"), c19Preview(it.Data, 160)), it, label)
		case strings.HasPrefix(o, "harness-error"):
			rep.Inconclusive(desc + ": " + o)
		case !valid:
			if o == "value" || o == "error" {
				rep.Distinct("hostile", it.Kind, len(it.Data), crc32.ChecksumIEEE(it.Data))
			} else {
				rep.Inconclusive(desc + ": unexpected outcome " + o)
			}
		case o == "match":
			var aux c19Aux
			_ = json.Unmarshal(it.Aux, &aux)
			if len(aux.Expected) >= 2 {
				rep.Distinct("valid", len(it.Data), crc32.ChecksumIEEE(it.Data), aux.Package)
			}
		case tab:
			vio.report(rep, "tab-separator-rejected", fmt.Sprintf("%s: type and field name separated by tab characters only: %s; definition:\n%s", desc, o, c19Preview(it.Data, 400)), it, label)
		case strings.HasPrefix(o, "mismatch:"):
			vio.report(rep, "tree-mismatch", fmt.Sprintf("%s: parsed tree differs from the generating graph: %s; definition:\n%s", desc, o, c19Preview(it.Data, 400)), it, label)
		case strings.HasPrefix(o, "error:"):
			vio.report(rep, "valid-definition-rejected", fmt.Sprintf("%s: %s; definition:\n%s", desc, o, c19Preview(it.Data, 400)), it, label)
		default:
			rep.Inconclusive(desc + ": unexpected outcome " + o)
		}
	}
	return missing
}

func RunC19(ctx *core.Ctx, rep *core.Report) {
	rep.Rule = "Valid inputs: random acyclic ROS 1 type graphs (nesting depth 0..5 below the top-level type; 1..3 packages plus graphs with package-less types; all 16 primitives; fixed and variable arrays of primitives and of nested types; " +
		"nested types written fully qualified, unqualified (defined in the package of the type that contains the field - including graphs where that package differs from the top-level package and where the same short name also exists in another package), " +
		"as 'Header' (std_msgs/Header, also next to a type named Header in another package) or by the bare name of a package-less section; shared, unused and empty types) rendered as concatenated definitions with comment lines, trailing comments (with '='), " +
		"constants (string values containing '#' and '='), blank lines, leading/trailing blanks and tabs, runs of blanks and tabs between type and name (at least one blank; about 3% of the definitions use tabs only and are counted apart), separator lines of 1..200 '=' and an optional missing final newline. " +
		"The expected tree is computed from the graph alone and compared in the isolated worker with the result of ParseMessageDefinition(top-level package, text) field by field (names, order, BaseType text, IsArray, FixedSize, IsRecord, Items, nested Fields). " +
		"Hostile inputs: a fixed hand-built list (self-, mutually and cyclically referential types directly and through arrays, reference chains of depth 200 and 5000, trees of 2^12 and 2^16 leaves, ']' before '[', unbalanced brackets, huge/negative/odd array sizes, " +
		"missing dependencies, empty input, separators only, MSG: lines without type, duplicate sections, 1 MiB lines, NUL bytes, CR/CRLF line endings, malformed field lines), uniformly random byte strings, random strings over a definition-like alphabet, " +
		"token soups, random ill-formed acyclic sections with hostile array suffixes, and valid definitions mutated by bit flips, byte substitutions, deleted/duplicated/swapped lines, truncation, deleted ranges, inserted brackets and CRLF conversion. Generated (not hand-built) hostile inputs that contain a reference cycle by accident are limited to 12 per run, further ones are cut to their top-level part (every cycle kills a worker and shows the same defect); the 23 hand-built cycles are always run. " +
		"Oracle for every input: the call returns a value or an error in an isolated child (goroutine stack capped at 64 MiB for this monitor - room for about 147 000 nested records - address space 16 GiB, watchdog of 60 CPU-s plus 300 s per GiB allocated): a recovered panic, a dead worker or a CPU overrun is a violation. " +
		"distinct_nontrivial counts distinct valid definitions with at least two top-level fields that matched, plus distinct hostile inputs on which the parser returned a value or an error."
	rep.Assumptions = []string{
		"expected-tree semantics follow the parser's unit tests: BaseType is the type text as written (brackets included for the array itself, excluded for Items); an array is not a record, its Items carry IsRecord/Fields; 'Header' always means std_msgs/Header; nil and empty Fields are the same",
		"unqualified names are resolved in the package of the containing type (the package written in the reference that led to it), as in ROS and in the unit test 'relative type different from parent type'",
		"panics are recovered per call inside the worker; fatal terminations are attributed through the journal; a fatal input costs one worker restart and loses no other input",
		"the worker's stack bound is lowered from the framework's 256 MiB to 64 MiB (debug.SetMaxStack in the entry point): a stack exhaustion then costs about 1 CPU-second instead of 3..15; the acyclic chains of depth 200 and 5000 need about 2.3 MiB",
		"at most 12 executions are listed per repeating violation kind (60 for worker deaths, mismatches and rejections); all are counted under violation_kinds",
		"fixed array sizes are 1..2^31-1 (size 0 cannot be told from a variable array in the parser's result type)",
	}
	nValid, nHostile := ctx.Pick(3000, 300000), ctx.Pick(20000, 2000000)
	parallel := 12
	missing := 0
	vio := &c19Violations{}

	// valid definitions
	const validRound = 20000
	agg := map[string]int64{}
	tabSampled := false
	for off := 0; off < nValid; off += validRound {
		n := min(validRound, nValid-off)
		items := make([]WorkItem, n)
		graphs := make([]*rosgen.Graph, n)
		core.Parallel(ctx, rep, n, func(k int) { items[k], graphs[k] = c19ValidItem(ctx, off+k) })
		for k, g := range graphs {
			if g == nil {
				continue
			}
			c19CountGraph(agg, g)
			if off == 0 && (k < 3 || (g.Stats.TabOnly && !tabSampled)) {
				tabSampled = tabSampled || g.Stats.TabOnly
				rep.Sample(map[string]any{"kind": items[k].Kind, "package": g.Top.Pkg, "definition": c19Preview(items[k].Data, 400), "expected_top_level_fields": g.TopNames(), "depth": g.Stats.Depth})
			}
		}
		results := runIsolated(ctx, "c19", items, parallel, ctx.Pick(250, 1000), rep)
		missing += judgeC19(rep, vio, items, results, "valid")
	}
	keys := make([]string, 0, len(agg))
	for k := range agg {
		keys = append(keys, k)
	}
	sort.Strings(keys)
	for _, k := range keys {
		rep.Count(k, agg[k])
	}
	for d := 0; d <= 5; d++ {
		if agg[fmt.Sprintf("graphs_depth_%d", d)] == 0 {
			rep.Inconclusive(fmt.Sprintf("no graph of depth %d was generated", d))
		}
	}
	for _, p := range rosgen.Primitives {
		if agg["prim_"+p] == 0 {
			rep.Inconclusive("primitive " + p + " never generated")
		}
	}

	// hostile inputs
	crafted := c19Crafted()
	nCycles := 0
	for _, c := range crafted {
		if strings.HasPrefix(c.kind, "cycle-") {
			nCycles++
		}
	}
	rep.Count("hostile_crafted_inputs", int64(len(crafted)))
	rep.Count("hostile_crafted_reference_cycles", int64(nCycles))
	const hostileRound = 100000
	kinds := map[string]int64{}
	accidental := 0
	for off := 0; off < nHostile; off += hostileRound {
		n := min(hostileRound, nHostile-off)
		items := make([]WorkItem, n)
		cyclic := make([]bool, n)
		core.Parallel(ctx, rep, n, func(k int) {
			i := off + k
			var in c19Input
			if i < len(crafted) {
				in = crafted[i]
			} else {
				in = c19HostileInput(ctx, i-len(crafted), nValid)
			}
			cyclic[k] = i >= len(crafted) && c19PredictCycle(in.pkg, in.text)
			aux, _ := json.Marshal(c19Aux{Package: in.pkg})
			items[k] = WorkItem{ID: 10_000_000 + i, Kind: in.kind, Data: in.text, Aux: aux}
		})
		for k := range items {
			if !cyclic[k] {
				continue
			}
			if accidental < c19AccidentalCycles {
				accidental++
				rep.Count("hostile_generated_inputs_with_predicted_cycle_kept", 1)
				continue
			}
			items[k].Data = c19TopLevelOnly(items[k].Data)
			rep.Count("hostile_generated_inputs_with_predicted_cycle_cut_to_top_level", 1)
		}
		for k := range items {
			kinds[c19Family(items[k].Kind)]++
		}
		// spread the crafted inputs (the ones that can kill a worker) over the batches
		sh := gen.Rng(ctx.Seed, "c19shuffle", off)
		sh.Shuffle(len(items), func(a, b int) { items[a], items[b] = items[b], items[a] })
		if off == 0 {
			for _, want := range []string{"mutated-valid", "random-acyclic-sections"} {
				for k := range items {
					if items[k].Kind == want {
						rep.Sample(map[string]any{"kind": items[k].Kind, "definition": c19Preview(items[k].Data, 400)})
						break
					}
				}
			}
		}
		results := runIsolated(ctx, "c19", items, parallel, ctx.Pick(500, 2500), rep)
		missing += judgeC19(rep, vio, items, results, "hostile")
	}
	for k, v := range kinds {
		rep.Count("hostile_inputs_"+k, v)
	}
	if missing > 0 {
		rep.Inconclusive(fmt.Sprintf("%d inputs have no result", missing))
	}
}

// ReplayC19 re-runs exactly the witness input through the worker and judges it the same way.
func ReplayC19(ctx *core.Ctx, rep *core.Report, w map[string]any) {
	hx, _ := w["text_hex"].(string)
	data, err := hex.DecodeString(hx)
	if err != nil {
		rep.Inconclusive("witness text_hex unreadable: " + err.Error())
		return
	}
	aux := c19Aux{}
	aux.Package, _ = w["package"].(string)
	kind, _ := w["input_kind"].(string)
	if e, ok := w["expected"]; ok {
		b, _ := json.Marshal(e)
		if err := json.Unmarshal(b, &aux.Expected); err != nil {
			rep.Inconclusive("witness expected tree unreadable: " + err.Error())
			return
		}
		aux.Valid = true
	}
	if v, ok := w["valid"].(bool); ok {
		aux.Valid = v
	}
	aux.Tab, _ = w["tab"].(bool)
	if aux.Valid && !strings.HasPrefix(kind, "valid") {
		kind = "valid"
	}
	if aux.Valid && aux.Tab {
		kind = "valid-tab"
	}
	id, _ := witnessInt(w, "id")
	ab, _ := json.Marshal(aux)
	items := []WorkItem{{ID: id, Kind: kind, Data: data, Aux: ab}}
	fmt.Printf("replaying %s input %d (package %q, %d bytes)\n", kind, id, aux.Package, len(data))
	results := runIsolated(ctx, "c19", items, 1, 1, rep)
	if judgeC19(rep, &c19Violations{}, items, results, "replay") > 0 {
		rep.Inconclusive("the replayed input produced no result")
	}
	if r := results[id]; r != nil {
		fmt.Printf("outcome: %v fatal=%q timeout=%v\n", r.Outcomes, r.Fatal, r.Timeout)
	}
}
