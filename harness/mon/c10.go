package mon

import (
	"bytes"
	"encoding/binary"
	"errors"
	"fmt"
	"hash/crc32"
	"io"
	"math"
	"math/rand"
	"os"
	"os/exec"
	"path/filepath"
	"sort"
	"strconv"
	"strings"

	"github.com/foxglove/mcap/go/mcap"

	"verifharness/core"
	"verifharness/drive"
	"verifharness/gen"
	"verifharness/refmcap"
)

// ---- entry points (executed inside the isolated worker)

const c10Limit = 1 << 20 // MaxRecordSize / MaxDecompressedChunkSize used in the "limits" runs
const c10MaxMessages = 200000

func lexOutcome(data []byte, o *mcap.LexerOptions) string {
	l, err := mcap.NewLexer(bytes.NewReader(data), o)
	if err != nil {
		return "error"
	}
	defer l.Close()
	n := 0
	var buf []byte
	for {
		tt, rec, err := l.Next(buf)
		if err != nil {
			if tt == mcap.TokenInvalidChunk {
				n++
				if n > c10MaxMessages {
					return "too-many-tokens"
				}
				continue
			}
			if errors.Is(err, io.EOF) {
				return "data"
			}
			return "error"
		}
		if cap(rec) > cap(buf) {
			buf = rec
		}
		n++
		if n > c10MaxMessages {
			return "too-many-tokens"
		}
	}
}

func lexerOptionCombo(mask int) *mcap.LexerOptions {
	o := &mcap.LexerOptions{SkipMagic: mask&1 != 0, ValidateChunkCRCs: mask&2 != 0, EmitChunks: mask&4 != 0, EmitInvalidChunks: mask&8 != 0, ComputeAttachmentCRCs: mask&16 != 0}
	if mask&32 != 0 {
		o.AttachmentCallback = func(ar *mcap.AttachmentReader) error {
			if _, err := io.Copy(io.Discard, ar.Data()); err != nil {
				return err
			}
			if _, err := ar.ParsedCRC(); err != nil {
				return err
			}
			_, err := ar.ComputedCRC()
			return err
		}
	}
	if mask&64 != 0 {
		o.MaxRecordSize = c10Limit
	}
	if mask&128 != 0 {
		o.MaxDecompressedChunkSize = c10Limit
	}
	return o
}

func iterOutcome(data []byte, opts ...mcap.ReadOpt) string {
	r, err := mcap.NewReader(bytes.NewReader(data))
	if err != nil {
		return "error"
	}
	defer r.Close()
	it, err := r.Messages(opts...)
	if err != nil {
		return "error"
	}
	msg := &mcap.Message{}
	for n := 0; n < c10MaxMessages; n++ {
		_, _, _, err := it.NextInto(msg)
		if err != nil {
			if errors.Is(err, io.EOF) {
				return "data"
			}
			return "error"
		}
	}
	return "too-many-messages"
}

func parseAll(body []byte) []entry {
	mk := func(name string, f func([]byte) error) entry {
		return entry{"Parse" + name, func(it *WorkItem) string {
			if err := f(body); err != nil {
				return "error"
			}
			return "data"
		}}
	}
	return []entry{
		mk("Header", func(b []byte) error { _, e := mcap.ParseHeader(b); return e }),
		mk("Footer", func(b []byte) error { _, e := mcap.ParseFooter(b); return e }),
		mk("Schema", func(b []byte) error { _, e := mcap.ParseSchema(b); return e }),
		mk("Channel", func(b []byte) error { _, e := mcap.ParseChannel(b); return e }),
		mk("Message", func(b []byte) error { _, e := mcap.ParseMessage(b); return e }),
		mk("PopulateFrom", func(b []byte) error { m := &mcap.Message{}; return m.PopulateFrom(b, true) }),
		mk("Chunk", func(b []byte) error { _, e := mcap.ParseChunk(b); return e }),
		mk("MessageIndex", func(b []byte) error { _, e := mcap.ParseMessageIndex(b); return e }),
		mk("ChunkIndex", func(b []byte) error { _, e := mcap.ParseChunkIndex(b); return e }),
		mk("AttachmentIndex", func(b []byte) error { _, e := mcap.ParseAttachmentIndex(b); return e }),
		mk("Statistics", func(b []byte) error { _, e := mcap.ParseStatistics(b); return e }),
		mk("Metadata", func(b []byte) error { _, e := mcap.ParseMetadata(b); return e }),
		mk("MetadataIndex", func(b []byte) error { _, e := mcap.ParseMetadataIndex(b); return e }),
		mk("SummaryOffset", func(b []byte) error { _, e := mcap.ParseSummaryOffset(b); return e }),
		mk("DataEnd", func(b []byte) error { _, e := mcap.ParseDataEnd(b); return e }),
	}
}

func infoOutcome(data []byte) string {
	r, err := mcap.NewReader(bytes.NewReader(data))
	if err != nil {
		return "error"
	}
	defer r.Close()
	info, err := r.Info()
	if err != nil {
		return "error"
	}
	_ = info.CanReadMessagesUsingIndex()
	if info.Statistics != nil {
		_ = info.ChannelCounts()
	}
	offs := []uint64{0, 1, 8, uint64(len(data)) - 1, uint64(len(data)), uint64(len(data)) + 1, 1 << 31, 1 << 32, 1 << 63, math.MaxUint64, math.MaxUint64 - 8}
	for i, ai := range info.AttachmentIndexes {
		if i < 8 {
			offs = append(offs, ai.Offset)
		}
	}
	for i, mi := range info.MetadataIndexes {
		if i < 8 {
			offs = append(offs, mi.Offset)
		}
	}
	for i, ci := range info.ChunkIndexes {
		if i < 4 {
			offs = append(offs, ci.ChunkStartOffset)
		}
	}
	for _, off := range offs {
		if ar, err := r.GetAttachmentReader(off); err == nil {
			_, _ = io.CopyN(io.Discard, ar.Data(), 1<<20)
			_, _ = ar.ParsedCRC()
			_, _ = ar.ComputedCRC()
		}
		_, _ = r.GetMetadata(off)
	}
	return "data"
}

// channelCountsOutcome calls Info.ChannelCounts unconditionally (a documented public method).
func channelCountsOutcome(data []byte) string {
	r, err := mcap.NewReader(bytes.NewReader(data))
	if err != nil {
		return "error"
	}
	defer r.Close()
	info, err := r.Info()
	if err != nil {
		return "error"
	}
	if info.Statistics == nil {
		return "no-statistics" // the method documents no behaviour for files without statistics; not called
	}
	_ = info.ChannelCounts()
	return "data"
}

func c10Entries(it *WorkItem) []entry {
	data := it.Data
	var es []entry
	// lexer: four fixed option combinations and eight drawn from the item id; over a run all 256 occur
	masks := []int{0, 2 | 16 | 32, 4, 2 | 8 | 32 | 64 | 128}
	r := rand.New(rand.NewSource(int64(it.ID)*2654435761 + 17))
	for k := 0; k < 8; k++ {
		masks = append(masks, r.Intn(256))
	}
	for _, m := range masks {
		m := m
		es = append(es, entry{fmt.Sprintf("lexer/%02x", m), func(it *WorkItem) string { return lexOutcome(data, lexerOptionCombo(m)) }})
	}
	// record parsers on the raw input and on every record body the reference splitter finds
	es = append(es, parseAll(data)...)
	if len(it.Aux) > 0 {
		for _, e := range parseAll(it.Aux) {
			e.name += "/body"
			es = append(es, e)
		}
	}
	start := 0
	if bytes.HasPrefix(data, refmcap.Magic) {
		start = 8
	}
	if recs, _ := refmcap.SplitRecords(data[start:]); len(recs) > 0 {
		seen := map[byte]int{}
		for _, rec := range recs {
			if seen[rec.Op] >= 2 || rec.Op == 0 || rec.Op > 0x0f {
				continue
			}
			seen[rec.Op]++
			body := rec.Body
			// the parser that belongs to the opcode plus one seeded mismatch
			all := parseAll(body)
			own := map[byte]int{1: 0, 2: 1, 3: 2, 4: 3, 5: 4, 6: 6, 7: 7, 8: 8, 0xa: 9, 0xb: 10, 0xc: 11, 0xd: 12, 0xe: 13, 0xf: 14}
			picks := []int{r.Intn(len(all))}
			if k, ok := own[rec.Op]; ok {
				picks = append(picks, k)
				if rec.Op == 5 {
					picks = append(picks, 5)
				}
			}
			for _, k := range picks {
				e := all[k]
				e.name += fmt.Sprintf("/rec%02x", rec.Op)
				es = append(es, e)
			}
		}
	}
	es = append(es,
		entry{"info+random-access", func(it *WorkItem) string { return infoOutcome(data) }},
		entry{"info.ChannelCounts", func(it *WorkItem) string { return channelCountsOutcome(data) }},
		entry{"messages/scan", func(it *WorkItem) string { return iterOutcome(data, mcap.UsingIndex(false)) }},
		entry{"messages/default", func(it *WorkItem) string { return iterOutcome(data) }},
		entry{"messages/index", func(it *WorkItem) string { return iterOutcome(data, mcap.UsingIndex(true)) }},
		entry{"messages/logtime", func(it *WorkItem) string { return iterOutcome(data, mcap.InOrder(mcap.LogTimeOrder)) }},
		entry{"messages/reverse", func(it *WorkItem) string { return iterOutcome(data, mcap.InOrder(mcap.ReverseLogTimeOrder)) }},
		entry{"messages/logtime+window+topics", func(it *WorkItem) string {
			return iterOutcome(data, mcap.InOrder(mcap.LogTimeOrder), mcap.AfterNanos(1), mcap.BeforeNanos(1<<62), mcap.WithTopics([]string{"shared/topic", "topic", "a"}))
		}},
		entry{"messages/scan+metadata-callback", func(it *WorkItem) string {
			return iterOutcome(data, mcap.UsingIndex(false), mcap.WithMetadataCallback(func(*mcap.Metadata) error { return nil }))
		}},
		entry{"messages/index+metadata-callback", func(it *WorkItem) string {
			return iterOutcome(data, mcap.UsingIndex(true), mcap.WithMetadataCallback(func(*mcap.Metadata) error { return nil }))
		}},
	)
	return es
}

func init() { workerModes["c10"] = c10Entries }

// ---- input generation (parent side)

var hostileValues = []uint64{0, 1, 2, 8, 9, 1<<31 - 1, 1 << 31, 1<<32 - 1, 1 << 32, 1<<63 - 1, 1 << 63, math.MaxUint64 - 8, math.MaxUint64}

func putWidth(b []byte, width int, v uint64) {
	switch width {
	case 1:
		b[0] = byte(v)
	case 2:
		binary.LittleEndian.PutUint16(b, uint16(v))
	case 4:
		binary.LittleEndian.PutUint32(b, uint32(v))
	case 8:
		binary.LittleEndian.PutUint64(b, v)
	}
}

// fieldTarget is one integer field of a valid file, with what is needed to repair enclosing CRCs.
type fieldTarget struct {
	abs    int // absolute offset in the file
	width  int
	name   string
	value  uint64
	chunk  *refmcap.Rec // enclosing uncompressed chunk (nil for top-level fields)
	recOff int
}

func fieldTargets(f *refmcap.File) []fieldTarget {
	var out []fieldTarget
	for _, r := range f.Recs {
		out = append(out, fieldTarget{abs: r.Off + 1, width: 8, name: refmcap.OpName(r.Op) + ".record_length", value: uint64(len(r.Body)), recOff: r.Off})
		out = append(out, fieldTarget{abs: r.Off, width: 1, name: refmcap.OpName(r.Op) + ".opcode", value: uint64(r.Op), recOff: r.Off})
		for _, fl := range refmcap.BodyFields(r.Op, r.Body) {
			out = append(out, fieldTarget{abs: r.Off + 9 + fl.Off, width: fl.Width, name: refmcap.OpName(r.Op) + "." + fl.Name, value: fl.Value, recOff: r.Off})
		}
		if r.Op == refmcap.OpChunk {
			ch, ok := r.Parsed.(*refmcap.Chunk)
			if !ok || ch.Compression != "" {
				continue
			}
			for _, in := range ch.Inner {
				base := ch.RecordsOff + in.Off
				out = append(out, fieldTarget{abs: base + 1, width: 8, name: "chunk/" + refmcap.OpName(in.Op) + ".record_length", value: uint64(len(in.Body)), chunk: r, recOff: r.Off})
				out = append(out, fieldTarget{abs: base, width: 1, name: "chunk/" + refmcap.OpName(in.Op) + ".opcode", value: uint64(in.Op), chunk: r, recOff: r.Off})
				for _, fl := range refmcap.BodyFields(in.Op, in.Body) {
					out = append(out, fieldTarget{abs: base + 9 + fl.Off, width: fl.Width, name: "chunk/" + refmcap.OpName(in.Op) + "." + fl.Name, value: fl.Value, chunk: r, recOff: r.Off})
				}
			}
		}
	}
	return out
}

// baseFiles builds the valid files that structured mutation starts from.
func c10BaseFiles(ctx *core.Ctx, n int) [][]byte {
	var out [][]byte
	for i := 0; len(out) < n; i++ {
		r := gen.Rng(ctx.Seed, "c10base", i)
		shape := gen.Shape{Schemas: 1 + r.Intn(3), Channels: 1 + r.Intn(4), Messages: 2 + r.Intn(14), Attachments: r.Intn(3), Metadata: r.Intn(3), MaxPayload: 50, MaxLongStr: 24, ManyMapKeys: 3,
			TimeMode: []string{"asc", "smallrand", "boundary", "ties"}[r.Intn(4)], Rewrites: r.Intn(3) == 0, TrailingChannels: r.Intn(4) == 0}
		w := gen.RandWorkload(r, shape)
		if i%10 == 9 {
			// uniform files: one channel, equal-sized messages, several chunks of different message counts -
			// stale bytes of one chunk then line up with the record boundaries of another
			out = append(out, c10UniformFile(r))
			continue
		}
		if i%3 == 2 {
			// reference-encoder layouts: empty chunks, odd summary orders, per-chunk compressions
			_, _, nm, _, _ := w.Counts()
			enc, err := refmcap.Encode(BuildPlan(w, RandLayout(r, nm, r.Intn(2) == 0)))
			if err == nil {
				out = append(out, enc.Bytes)
			}
			continue
		}
		k := gen.Config{Chunked: r.Intn(5) != 0, ChunkSize: []int64{1, 80, 300, 1 << 20}[r.Intn(4)], Compression: []string{"", "", "zstd", "lz4"}[r.Intn(4)], IncludeCRC: r.Intn(3) != 0}
		if r.Intn(3) == 0 {
			k.SetFlags(r.Intn(256))
		}
		res := drive.RunWriter(w, k, drive.NewSink(), nil)
		if res.NewErr == nil && res.FirstErr() == nil {
			out = append(out, res.Bytes())
		}
	}
	return out
}

func c10UniformFile(r *rand.Rand) []byte {
	w := &gen.Workload{}
	ch := &refmcap.Channel{ID: uint16(1 + r.Intn(3)), Topic: "uniform", MessageEncoding: "x"}
	w.Ops = append(w.Ops, refmcap.Item{Channel: ch})
	psize := r.Intn(12)
	recSize := 9 + 22 + psize
	k := gen.Config{Chunked: true, ChunkSize: int64(recSize*(2+r.Intn(4)) - 1), Compression: []string{"zstd", "zstd", "lz4", ""}[r.Intn(4)], IncludeCRC: r.Intn(2) == 0}
	n := 5 + r.Intn(14)
	for i := 0; i < n; i++ {
		d := make([]byte, psize)
		r.Read(d)
		w.Ops = append(w.Ops, refmcap.Item{Message: &refmcap.Message{ChannelID: ch.ID, Sequence: uint32(i), LogTime: uint64(i), PublishTime: uint64(i), Data: d}})
	}
	res := drive.RunWriter(w, k, drive.NewSink(), nil)
	return res.Bytes()
}

func repairChunkCRC(data []byte, chunk *refmcap.Rec) {
	ch := chunk.Parsed.(*refmcap.Chunk)
	crc := crc32.ChecksumIEEE(data[ch.RecordsOff : ch.RecordsOff+len(ch.Records)])
	binary.LittleEndian.PutUint32(data[chunk.Off+9+24:], crc)
}

// c10Inputs generates the deterministic input list for a tier.
func c10Inputs(ctx *core.Ctx, nStructured, nRandom, nSplice int) ([]WorkItem, map[string]int) {
	var items []WorkItem
	kinds := map[string]int{}
	add := func(kind string, data []byte, aux []byte) {
		if len(data) > 64<<10 {
			data = data[:64<<10]
		}
		items = append(items, WorkItem{ID: len(items), Kind: kind, Data: data, Aux: aux})
		kinds[kind]++
	}
	bases := c10BaseFiles(ctx, 60)
	r := gen.Rng(ctx.Seed, "c10in", 0)
	for _, b := range bases {
		add("valid", b, nil)
	}
	// structured field mutations
	type tf struct {
		data []byte
		ts   []fieldTarget
	}
	var tfs []tf
	for _, b := range bases {
		f, err := refmcap.Decode(b, nil)
		if err != nil {
			continue
		}
		tfs = append(tfs, tf{b, fieldTargets(f)})
	}
	for len(items) < len(bases)+nStructured {
		t := tfs[r.Intn(len(tfs))]
		ft := t.ts[r.Intn(len(t.ts))]
		d := append([]byte(nil), t.data...)
		var v uint64
		kind := "field"
		switch r.Intn(6) {
		case 0:
			v = ft.value + 1
		case 1:
			v = ft.value - 1
		case 2, 3:
			// the value the same field has in another record of this file (a chunk that declares its
			// neighbour's size, an index entry that designates another record, ...), else the value of
			// any other field of the same width
			kind = "field-cross"
			var pool []uint64
			for _, o := range t.ts {
				if o.abs != ft.abs && o.width == ft.width && o.value != ft.value && o.name == ft.name {
					pool = append(pool, o.value)
				}
			}
			if len(pool) == 0 || r.Intn(4) == 0 {
				for _, o := range t.ts {
					if o.abs != ft.abs && o.width == ft.width && o.value != ft.value {
						pool = append(pool, o.value)
					}
				}
			}
			if len(pool) == 0 {
				v = ft.value + 1
			} else {
				v = pool[r.Intn(len(pool))]
			}
		default:
			v = hostileValues[r.Intn(len(hostileValues))]
		}
		if ft.width == 1 && strings.HasSuffix(ft.name, ".opcode") {
			v = uint64([]byte{0, 1, 2, 5, 6, 9, 0x0f, 0x10, 0x80, 0xff}[r.Intn(10)])
		}
		putWidth(d[ft.abs:], ft.width, v)
		if ft.chunk != nil {
			kind += "-in-chunk"
			if r.Intn(2) == 0 {
				repairChunkCRC(d, ft.chunk)
				kind += "-crc-repaired"
			}
		}
		add(kind, d, nil)
	}
	// truncation, splicing, duplication, nesting, unknown compression
	for k := 0; k < nSplice; k++ {
		b := bases[r.Intn(len(bases))]
		d := append([]byte(nil), b...)
		switch k % 6 {
		case 0:
			add("truncated", d[:r.Intn(len(d))], nil)
		case 1:
			n := 1 + r.Intn(40)
			a, c := r.Intn(len(d)-n), r.Intn(len(d)-n)
			copy(d[a:a+n], b[c:c+n])
			add("spliced", d, nil)
		case 2:
			// duplicate a record range in place
			f, err := refmcap.Decode(b, nil)
			if err != nil || len(f.Recs) < 3 {
				continue
			}
			rec := f.Recs[1+r.Intn(len(f.Recs)-2)]
			nd := append(append(append([]byte(nil), b[:rec.End()]...), b[rec.Off:rec.End()]...), b[rec.End():]...)
			add("record-duplicated", nd, nil)
		case 3:
			// a chunk whose records are a chunk record (nested chunk)
			f, err := refmcap.Decode(b, nil)
			if err != nil {
				continue
			}
			for _, rec := range f.Chunks() {
				inner := b[rec.Off:rec.End()]
				body := make([]byte, 0, len(inner)+64)
				body = binary.LittleEndian.AppendUint64(body, 0)
				body = binary.LittleEndian.AppendUint64(body, 0)
				body = binary.LittleEndian.AppendUint64(body, uint64(len(inner)))
				body = binary.LittleEndian.AppendUint32(body, 0)
				body = binary.LittleEndian.AppendUint32(body, 0)
				body = binary.LittleEndian.AppendUint64(body, uint64(len(inner)))
				body = append(body, inner...)
				nd := append(append(append([]byte(nil), b[:rec.Off]...), refmcap.Record(refmcap.OpChunk, body)...), b[rec.End():]...)
				add("nested-chunk", nd, nil)
				break
			}
		case 4:
			// unknown / odd compression names
			f, err := refmcap.Decode(b, nil)
			if err != nil {
				continue
			}
			for _, rec := range f.Chunks() {
				ch := rec.Parsed.(*refmcap.Chunk)
				if len(ch.Compression) == 4 {
					copy(d[rec.Off+9+32:], []string{"zstD", "lz4\x00", "none", "\xff\xff\xff\xff"}[r.Intn(4)])
					add("unknown-compression", d, nil)
					break
				}
			}
		case 5:
			// bit flips anywhere
			for j := 0; j < 1+r.Intn(4); j++ {
				d[r.Intn(len(d))] ^= 1 << uint(r.Intn(8))
			}
			add("bit-flips", d, nil)
		}
	}
	// random byte strings, most of them behind a valid magic (and some behind a valid header)
	hdr := append(append([]byte(nil), refmcap.Magic...), refmcap.Record(refmcap.OpHeader, (&refmcap.Header{}).Body())...)
	for k := 0; k < nRandom; k++ {
		n := []int{0, 1, 7, 8, 9, 17, 40, 200, 2000}[r.Intn(9)]
		if r.Intn(4) == 0 {
			n = r.Intn(5000)
		}
		b := make([]byte, n)
		r.Read(b)
		switch k % 4 {
		case 0:
			add("random", b, b)
		case 1:
			add("random-after-magic", append(append([]byte(nil), refmcap.Magic...), b...), b)
		case 2:
			add("random-after-header", append(append([]byte(nil), hdr...), b...), b)
		default:
			// a well-framed record of a known opcode with random content, followed by a footer and magic
			op := byte(1 + r.Intn(15))
			body := append(append([]byte(nil), hdr...), refmcap.Record(op, b)...)
			body = append(body, refmcap.Record(refmcap.OpFooter, make([]byte, 20))...)
			body = append(body, refmcap.Magic...)
			add("random-record-framed", body, b)
		}
	}
	return items, kinds
}

// ---- verdicts

func judgeC10(ctx *core.Ctx, rep *core.Report, items []WorkItem, results map[int]*ItemResult, label string) {
	byID := map[int]*WorkItem{}
	for i := range items {
		byID[items[i].ID] = &items[i]
	}
	ids := make([]int, 0, len(results))
	for id := range results {
		ids = append(ids, id)
	}
	sort.Ints(ids)
	var suspicious []WorkItem
	for _, id := range ids {
		res := results[id]
		it := byID[id]
		witness := map[string]any{"input_kind": it.Kind, "input_hex": core.Hex(it.Data), "stream": label, "id": id}
		if len(it.Data) > 4096 {
			witness["input_hex"] = core.Hex(it.Data[:4096]) + "...(truncated)"
		}
		rep.Eval(1)
		rep.Count("entry_point_calls", int64(len(res.Outcomes)))
		if res.Fatal != "" {
			rep.Violate("fatal:"+res.Fatal, fmt.Sprintf("input %d (%s, %d bytes): the process died in %s: %s", id, it.Kind, len(it.Data), res.Entry, res.Fatal), witness)
			continue
		}
		if res.Timeout {
			rep.Violate("cpu-budget-exceeded", fmt.Sprintf("input %d (%s, %d bytes): %s consumed more than its CPU budget (%d s + %d s per GiB allocated) twice", id, it.Kind, len(it.Data), res.Entry, cpuBudgetSecs, cpuSecsPerGiB), witness)
			continue
		}
		nontrivial := false
		for e, o := range res.Outcomes {
			core.NotePattern(rep, "outcome_classes", entryClass(e)+"="+firstWord(o))
			if strings.HasPrefix(o, "panic:") {
				sig := strings.TrimPrefix(o, "panic:")
				rep.Violate("panic:"+sig, fmt.Sprintf("input %d (%s, %d bytes): %s panicked: %s", id, it.Kind, len(it.Data), e, sig), witness)
			}
			if o == "data" || o == "error" {
				nontrivial = true
			}
			if strings.HasPrefix(o, "too-many") {
				rep.Violate("unbounded-output", fmt.Sprintf("input %d (%s, %d bytes): %s produced more than %d results from at most 64 KiB", id, it.Kind, len(it.Data), e, c10MaxMessages), witness)
			}
		}
		if nontrivial {
			rep.Distinct(label, it.Kind, crc32.ChecksumIEEE(it.Data))
		}
		rep.Max("max_totalalloc_delta_per_input", int64(res.Alloc))
		if res.BigAlloc >= 1<<31 {
			// a single call allocated 2 GiB or more in total: find out whether one object did
			suspicious = append(suspicious, *it)
		}
	}
	// exact accounting for inputs whose total allocation is suspicious
	if len(suspicious) > 40 {
		rep.Note("%d inputs exceeded the allocation filter; the first 40 are profiled", len(suspicious))
		suspicious = suspicious[:40]
	}
	confirmed := 0
	for k, it := range suspicious {
		if confirmed >= 6 {
			// the verdict is settled; profiling the rest (a minute each when the object is really allocated) adds only repeats
			rep.Note("%d further inputs over the allocation filter were not profiled after %d confirmed over-size objects", len(suspicious)-k, confirmed)
			break
		}
		tmpRes := profileItem(ctx, "c10", it, rep)
		rep.Count("inputs_profiled_for_allocation", 1)
		for _, s := range tmpRes {
			if s.Bytes >= 1<<31 {
				confirmed++
				fn := strings.TrimPrefix(s.Func, "github.com/foxglove/mcap/go/")
				rep.Violate("alloc:"+fn, fmt.Sprintf("input %d (%s, %d bytes): a single object of %d bytes was allocated by %s (ceiling 2 GiB); stack %s", it.ID, it.Kind, len(it.Data), s.Bytes, s.Func, s.Stack),
					map[string]any{"input_kind": it.Kind, "input_hex": core.Hex(it.Data), "id": it.ID})
				break
			}
		}
	}
}

// profileItem re-runs one item alone with exact allocation profiling and returns the allocation sites >= 1 MiB.
func profileItem(ctx *core.Ctx, mode string, it WorkItem, rep *core.Report) []AllocSite {
	dir, err := osMkdirTemp(ctx)
	if err != nil {
		return nil
	}
	defer osRemoveAll(dir)
	rs := runBatch(ctx, mode, dir, fmt.Sprintf("p%d", it.ID), []WorkItem{it}, true, rep)
	if r := rs[it.ID]; r != nil {
		return r.Sites
	}
	return nil
}

func entryClass(e string) string {
	if i := strings.IndexByte(e, '/'); i > 0 {
		return e[:i]
	}
	return e
}

func firstWord(s string) string {
	if i := strings.IndexAny(s, ": "); i > 0 {
		return s[:i]
	}
	return s
}

// limitsInputs builds inputs for the configured-ceiling clause: records and chunks that declare sizes
// above MaxRecordSize / MaxDecompressedChunkSize, checked with exact allocation profiling.
func c10LimitEntries(it *WorkItem) []entry {
	data := it.Data
	return []entry{{"lexer/limits", func(*WorkItem) string {
		o := lexerOptionCombo(2 | 32 | 64 | 128)
		return lexOutcome(data, o)
	}}, {"lexer/limits-novalidate", func(*WorkItem) string {
		return lexOutcome(data, lexerOptionCombo(32|64|128))
	}}, {"lexer/limits-emitchunks", func(*WorkItem) string {
		// with EmitChunks the chunk record is read whole, so MaxRecordSize must bound it too
		return lexOutcome(data, lexerOptionCombo(4|32|64|128))
	}}, {"lexer/limits-emitchunks-skipmagic", func(*WorkItem) string {
		if len(data) < 8 {
			return "error"
		}
		return lexOutcome(data[8:], lexerOptionCombo(1|4|64))
	}}}
}

func init() { workerModes["c10limits"] = c10LimitEntries }

func c10LimitInputs(ctx *core.Ctx) []WorkItem {
	var items []WorkItem
	hdr := append(append([]byte(nil), refmcap.Magic...), refmcap.Record(refmcap.OpHeader, (&refmcap.Header{}).Body())...)
	add := func(kind string, d []byte) { items = append(items, WorkItem{ID: len(items), Kind: kind, Data: d}) }
	for _, declared := range []uint64{c10Limit + 1, 8 << 20, 64 << 20, 1 << 30, 1<<31 - 2} {
		for _, op := range []byte{refmcap.OpSchema, refmcap.OpMessage, refmcap.OpMetadata, refmcap.OpStatistics, refmcap.OpChunk, refmcap.OpMessageIndex, refmcap.OpChunkIndex, refmcap.OpAttachment, 0x42} {
			d := append([]byte(nil), hdr...)
			d = append(d, op)
			d = binary.LittleEndian.AppendUint64(d, declared)
			d = append(d, make([]byte, 100)...)
			add(fmt.Sprintf("record-declares-%d", declared), d)
		}
		// chunk declaring a large uncompressed size with a tiny payload
		for _, comp := range []string{"", "zstd", "lz4"} {
			raw := refmcap.Record(refmcap.OpMessage, (&refmcap.Message{ChannelID: 1, Data: []byte("x")}).Body())
			stored, _ := refmcap.Compress(comp, raw, nil)
			body := binary.LittleEndian.AppendUint64(nil, 0)
			body = binary.LittleEndian.AppendUint64(body, 0)
			body = binary.LittleEndian.AppendUint64(body, declared)
			body = binary.LittleEndian.AppendUint32(body, 0)
			body = binary.LittleEndian.AppendUint32(body, uint32(len(comp)))
			body = append(body, comp...)
			body = binary.LittleEndian.AppendUint64(body, uint64(len(stored)))
			body = append(body, stored...)
			d := append(append([]byte(nil), hdr...), refmcap.Record(refmcap.OpChunk, body)...)
			add(fmt.Sprintf("chunk-declares-%d-%s", declared, comp), d)
		}
	}
	// chunk records whose own length exceeds MaxRecordSize and whose compression-string length is large:
	// the limit must be applied before anything is sized from the record
	// ... and chunk / attachment records that are themselves small (within the limit, some shorter than
	// their fixed fields) while a string length inside them is large: nothing may be sized from a
	// length that the record cannot hold
	for _, recLen := range []uint64{0, 8, 31, 32, 40, 100, c10Limit} {
		for _, strLen := range []uint32{c10Limit + 1, 64 << 20, 1<<31 - 10} {
			d := append([]byte(nil), hdr...)
			d = append(d, refmcap.OpChunk)
			d = binary.LittleEndian.AppendUint64(d, recLen)
			d = append(d, make([]byte, 28)...)
			d = binary.LittleEndian.AppendUint32(d, strLen)
			d = append(d, []byte("lz4-and-then-nothing-more")...)
			add(fmt.Sprintf("small-chunk-record-%d-compression-length-%d", recLen, strLen), d)
			d = append([]byte(nil), hdr...)
			d = append(d, refmcap.OpAttachment)
			d = binary.LittleEndian.AppendUint64(d, recLen)
			d = append(d, make([]byte, 16)...) // log time, create time
			d = binary.LittleEndian.AppendUint32(d, strLen)
			d = append(d, []byte("name-and-then-nothing-more")...)
			add(fmt.Sprintf("small-attachment-record-%d-name-length-%d", recLen, strLen), d)
		}
	}
	for _, recLen := range []uint64{c10Limit + 1, 1 << 30, 1 << 40} {
		for _, compLen := range []uint32{c10Limit + 1, 64 << 20, 256 << 20, 1<<31 - 10} {
			d := append([]byte(nil), hdr...)
			d = append(d, refmcap.OpChunk)
			d = binary.LittleEndian.AppendUint64(d, recLen)
			d = append(d, make([]byte, 28)...) // start, end, uncompressed size, crc
			d = binary.LittleEndian.AppendUint32(d, compLen)
			d = append(d, []byte("zstd-and-then-nothing-more")...)
			add(fmt.Sprintf("chunk-record-%d-compression-length-%d", recLen, compLen), d)
		}
	}
	return items
}

// runLimitsStage checks the configured-ceiling clause under exact allocation profiling: first all inputs
// in one profiled worker (sites are aggregated), then - only if some site is over the bound or a call
// failed - each input alone, to attribute.
func runLimitsStage(ctx *core.Ctx, rep *core.Report, lim []WorkItem) {
	dir, err := osMkdirTemp(ctx)
	if err != nil {
		rep.Inconclusive(err.Error())
		return
	}
	defer osRemoveAll(dir)
	over := func(s AllocSite) bool {
		return strings.HasPrefix(s.Func, "github.com/foxglove/mcap/go/mcap.") && s.Bytes > 2*c10Limit+(64<<10)
	}
	judge := func(its []WorkItem, tag string) bool {
		rs := runBatch(ctx, "c10limits", dir, tag, its, true, rep)
		bad := false
		for _, it := range its {
			r := rs[it.ID]
			if r == nil {
				continue
			}
			witness := map[string]any{"input_kind": it.Kind, "input_hex": core.Hex(it.Data), "stream": "limits", "id": it.ID}
			if r.Fatal != "" {
				rep.Violate("fatal:"+r.Fatal, fmt.Sprintf("limits input %s: process died: %s", it.Kind, r.Fatal), witness)
				bad = true
				continue
			}
			for e, o := range r.Outcomes {
				if strings.HasPrefix(o, "panic:") {
					rep.Violate(o, fmt.Sprintf("limits input %s: %s %s", it.Kind, e, o), witness)
					bad = true
				}
			}
			for _, s := range r.Sites {
				if over(s) {
					bad = true
					if len(its) == 1 {
						fn := strings.TrimPrefix(s.Func, "github.com/foxglove/mcap/go/")
						rep.Violate("alloc-over-configured-limit:"+fn, fmt.Sprintf("limits input %s: with MaxRecordSize=MaxDecompressedChunkSize=1 MiB, %s allocated a single object of %d bytes", it.Kind, s.Func, s.Bytes), witness)
						break
					}
				}
			}
		}
		return bad
	}
	rep.Eval(len(lim))
	rep.Count("limit_inputs_profiled", int64(len(lim)))
	for _, it := range lim {
		rep.Distinct("limits", it.Kind)
	}
	if judge(lim, "lim-all") && len(lim) > 1 {
		for _, it := range lim {
			judge([]WorkItem{it}, fmt.Sprintf("lim%d", it.ID))
		}
	}
}

func RunC10(ctx *core.Ctx, rep *core.Report) {
	rep.Rule = "inputs <= 64 KiB: 60 valid base files (Go writer and reference-encoder layouts); structured mutations (every integer field of every record - incl. record lengths, opcodes, string/map/array length prefixes, offsets, sizes, times, inside uncompressed chunks with the chunk CRC optionally repaired - set to value+-1 or one of {0,1,2,8,9,2^31-1,2^31,2^32-1,2^32,2^63-1,2^63,2^64-9,2^64-1}); truncation, splicing, duplicated records, nested chunks, unknown compression names, bit flips; random byte strings (bare, after a magic, after a header, framed as a known record). " +
		"Each input goes through every public decode entry point in an isolated child process (address space capped at 16 GiB, stack 256 MiB, CPU watchdog of 60 CPU-s plus 300 s per GiB the call allocates (at most 12 GiB counted), an overrun re-run alone before it counts, journalled per call): lexer under 12 option combinations (4 fixed + 8 seeded out of all 256), 15 Parse*/PopulateFrom functions on the raw bytes and on every record body, NewReader/Info/ChannelCounts/GetMetadata/GetAttachmentReader at reported and boundary offsets, Messages in 8 modes. " +
		"Oracle: no panic escapes, the process survives, CPU budget kept, no single object >= 2^31 bytes (exact per-site accounting with MemProfileRate=1 for inputs on which a single call allocated 2 GiB or more in total), and with MaxRecordSize/MaxDecompressedChunkSize = 1 MiB no object allocated by package mcap above 2 MiB + 64 KiB. distinct_nontrivial counts distinct inputs on which at least one entry point returned data or an error."
	rep.Assumptions = []string{"panics are recovered per call inside the worker; fatal terminations are attributed through the journal", "allocation accounting: runtime.MemStats.TotalAlloc deltas (exact) as filter, runtime.MemProfile with rate 1 for attribution"}
	nStruct, nRand, nSplice := ctx.Pick(6000, 80000), ctx.Pick(2000, 20000), ctx.Pick(1200, 12000)
	if os.Getenv("VERIF_C10_STAGE") == "limits" { // self-test convenience: only the configured-limit stage
		nStruct, nRand, nSplice = 50, 20, 20
	}
	items, kinds := c10Inputs(ctx, nStruct, nRand, nSplice)
	for k, v := range kinds {
		rep.Count("inputs_"+k, int64(v))
	}
	results := runIsolated(ctx, "c10", items, 8, 400, rep)
	if len(results) < len(items) {
		rep.Inconclusive(fmt.Sprintf("only %d of %d inputs have results", len(results), len(items)))
	}
	judgeC10(ctx, rep, items, results, "main")
	// configured ceilings, with exact accounting
	runLimitsStage(ctx, rep, c10LimitInputs(ctx))
	if ctx.Thorough() {
		runFuzzStage(ctx, rep, 150000)
	}
	rep.Sample(map[string]any{"kinds": kinds, "sample_input_hex": core.Hex(items[len(items)/2].Data[:min(80, len(items[len(items)/2].Data))]), "sample_kind": items[len(items)/2].Kind})
}

// ---- coverage-guided exploration (thorough tier)

// C10FuzzSeeds returns the seed corpus for go test -fuzz: valid base files and a few structured mutants.
func C10FuzzSeeds() [][]byte {
	ctx := &core.Ctx{Seed: core.EnvSeed()}
	items, _ := c10Inputs(ctx, 300, 40, 60)
	var out [][]byte
	for _, it := range items {
		if len(it.Data) <= 16<<10 {
			out = append(out, it.Data)
		}
	}
	return out
}

// C10FuzzOne runs the decode entry points on one input in-process; a panic propagates to the fuzzing engine.
// Lexer runs use the configured limits so that legal-but-huge allocations do not slow the engine down.
func C10FuzzOne(data []byte) {
	it := &WorkItem{ID: int(crc32.ChecksumIEEE(data)), Data: data}
	for _, m := range []int{2 | 8 | 32 | 64 | 128, 4 | 64, 1 | 16 | 32 | 64 | 128} {
		lexOutcome(data, lexerOptionCombo(m))
	}
	for _, e := range parseAll(data) {
		e.run(it)
	}
	if len(data) < 4096 {
		infoOutcome(data)
		iterOutcome(data, mcap.UsingIndex(false))
		iterOutcome(data, mcap.InOrder(mcap.LogTimeOrder))
		iterOutcome(data, mcap.UsingIndex(true), mcap.WithMetadataCallback(func(*mcap.Metadata) error { return nil }))
	}
}

// runFuzzStage runs the coverage-guided explorer for a fixed number of executions and feeds its
// crashers to the isolated worker.
func runFuzzStage(ctx *core.Ctx, rep *core.Report, execs int) {
	dir := filepath.Join(core.VerifDir, "harness")
	crashDir := filepath.Join(dir, "fuzz", "testdata", "fuzz", "FuzzDecode")
	_ = os.RemoveAll(filepath.Join(dir, "fuzz", "testdata"))
	args := []string{"test", "-tags", "verif", "-run", "^$", "-fuzz", "FuzzDecode", "-fuzztime", fmt.Sprintf("%dx", execs), "-parallel", "8"}
	if mf := os.Getenv("VERIF_MODFILE"); mf != "" {
		args = append(args, "-modfile="+mf)
	}
	args = append(args, "./fuzz")
	cmd := exec.Command("go", args...)
	cmd.Dir = dir
	cmd.Env = append(goEnv(), "CGO_ENABLED=1")
	out, err := cmd.CombinedOutput()
	text := string(out)
	rep.Set("fuzz_stage_tail", tail(text, 600))
	var done int
	for _, line := range strings.Split(text, "\n") {
		if i := strings.Index(line, "execs: "); i >= 0 {
			var n int
			fmt.Sscanf(line[i:], "execs: %d", &n)
			if n > done {
				done = n
			}
		}
	}
	rep.Count("fuzz_executions", int64(done))
	files, _ := filepath.Glob(filepath.Join(crashDir, "*"))
	if err != nil && len(files) == 0 {
		rep.Inconclusive("coverage-guided stage failed without leaving a crasher: " + tail(text, 300))
		return
	}
	var items []WorkItem
	for i, f := range files {
		b, rerr := os.ReadFile(f)
		if rerr != nil {
			continue
		}
		// corpus file format: "go test fuzz v1\n[]byte(\"...\")\n"
		data := decodeFuzzCorpus(string(b))
		items = append(items, WorkItem{ID: i, Kind: "fuzz-crasher", Data: data, Aux: data})
	}
	if len(items) > 0 {
		rep.Count("fuzz_crashers", int64(len(items)))
		before := rep.NumViolations()
		judgeC10(ctx, rep, items, runIsolated(ctx, "c10", items, 1, 1, rep), "fuzz")
		if rep.NumViolations() == before {
			rep.Note("the fuzz engine reported %d crasher(s) that the isolated worker does not reproduce (engine resource limits?): %s", len(items), tail(text, 200))
		}
	}
	_ = os.RemoveAll(filepath.Join(dir, "fuzz", "testdata"))
}

func decodeFuzzCorpus(s string) []byte {
	lines := strings.Split(s, "\n")
	for _, l := range lines {
		l = strings.TrimSpace(l)
		if strings.HasPrefix(l, "[]byte(") && strings.HasSuffix(l, ")") {
			q := l[len("[]byte(") : len(l)-1]
			if u, err := strconv.Unquote(q); err == nil {
				return []byte(u)
			}
		}
	}
	return nil
}
