package mon

import (
	"bufio"
	"encoding/gob"
	"fmt"
	"os"
	"os/exec"
	"path/filepath"
	"runtime"
	"runtime/debug"
	"runtime/metrics"
	"sort"
	"strconv"
	"strings"
	"sync"
	"sync/atomic"
	"syscall"
	"time"

	"verifharness/core"
)

// WorkItem is one input handed to the isolated worker.
type WorkItem struct {
	ID   int
	Kind string // input family, for the evidence
	Data []byte
	Aux  []byte
}

// entry is one public entry point exercised on an item. It returns a short outcome class
// ("data", "error", ...) and may panic; the framework recovers and classifies.
type entry struct {
	name string
	run  func(it *WorkItem) string
}

// workerModes maps a mode name to the function that lists the entry points for an item.
var workerModes = map[string]func(it *WorkItem) []entry{}

const (
	workerASLimit   = 16 << 30 // address-space cap of a worker
	workerMaxStack  = 256 << 20
	cpuBudgetSecs   = 60
	cpuSecsPerGiB   = 300
	cpuAllocCapGiB  = 12
	suspiciousAlloc = 1 << 30 // TotalAlloc delta per item that triggers exact per-site accounting
)

// ItemResult is what the parent learned about one item.
type ItemResult struct {
	ID       int
	Outcomes map[string]string // entry -> outcome
	Alloc    uint64            // TotalAlloc delta over all entries
	BigAlloc uint64            // largest allocation volume of a single entry-point call when >= 2^31
	Fatal    string            // non-empty: the worker died while running Entry
	Entry    string
	Timeout  bool
	Sites    []AllocSite // filled in profile mode
}

type AllocSite struct {
	Bytes int64  // size of the largest single object allocated at this site
	Func  string // innermost non-runtime function
	Stack string
}

// cpuBudget is the CPU time one entry-point call may consume: cpuBudgetSecs plus cpuSecsPerGiB for
// every GiB the call has allocated so far, counted up to cpuAllocCapGiB. First-touch of fresh memory is
// the one cost that was seen to vary by two orders of magnitude with the state of the machine (a single
// legal 1.7 GB buffer: 0.1 s on an idle VM, up to 270 CPU-seconds on a loaded one, most of it accounted
// as user time); everything else stayed far below the base budget under any load. The cap keeps a loop
// that allocates garbage for ever detectable.
func cpuBudget(allocated uint64) float64 {
	gib := float64(allocated) / (1 << 30)
	if gib > cpuAllocCapGiB {
		gib = cpuAllocCapGiB
	}
	return cpuBudgetSecs + gib*cpuSecsPerGiB
}

func cpuSeconds() float64 {
	var ru syscall.Rusage
	_ = syscall.Getrusage(syscall.RUSAGE_SELF, &ru)
	return float64(ru.Utime.Sec) + float64(ru.Utime.Usec)/1e6 + float64(ru.Stime.Sec) + float64(ru.Stime.Usec)/1e6
}

// panicSignature reduces a recovered panic to "<innermost frame of the code under test>: <panic class>".
func panicSignature(v any, stack string) string {
	msg := fmt.Sprint(v)
	class := msg
	for _, k := range []string{"slice bounds out of range", "index out of range", "nil pointer dereference", "makeslice: len out of range", "makeslice: cap out of range", "integer divide by zero", "invalid memory address"} {
		if strings.Contains(msg, k) {
			class = k
			break
		}
	}
	if len(class) > 80 {
		class = class[:80]
	}
	fn := "?"
	for _, line := range strings.Split(stack, "\n") {
		line = strings.TrimSpace(line)
		if strings.HasPrefix(line, "github.com/foxglove/mcap/go/") {
			f := line
			if i := strings.LastIndex(f, "("); i > 0 {
				f = f[:i]
			}
			fn = strings.TrimPrefix(f, "github.com/foxglove/mcap/go/")
			break
		}
	}
	return fn + ": " + class
}

// WorkerMain: verif worker <mode> <batch file> <journal file> [profile]
func WorkerMain(args []string) {
	if len(args) < 3 {
		fmt.Fprintln(os.Stderr, "usage: worker <mode> <batch> <journal> [profile]")
		os.Exit(3)
	}
	mode, batchPath, journalPath := args[0], args[1], args[2]
	profile := len(args) > 3 && args[3] == "profile"
	lim := syscall.Rlimit{Cur: workerASLimit, Max: workerASLimit}
	_ = syscall.Setrlimit(syscall.RLIMIT_AS, &lim)
	debug.SetMaxStack(workerMaxStack)
	if profile {
		runtime.MemProfileRate = 1
	}
	entries, ok := workerModes[mode]
	if !ok {
		fmt.Fprintln(os.Stderr, "unknown worker mode", mode)
		os.Exit(3)
	}
	bf, err := os.Open(batchPath)
	if err != nil {
		fmt.Fprintln(os.Stderr, err)
		os.Exit(3)
	}
	var items []WorkItem
	if err := gob.NewDecoder(bufio.NewReader(bf)).Decode(&items); err != nil {
		fmt.Fprintln(os.Stderr, "batch decode:", err)
		os.Exit(3)
	}
	bf.Close()
	jf, err := os.OpenFile(journalPath, os.O_CREATE|os.O_WRONLY|os.O_APPEND, 0o644)
	if err != nil {
		fmt.Fprintln(os.Stderr, err)
		os.Exit(3)
	}
	var jmu sync.Mutex
	journal := func(format string, a ...any) {
		jmu.Lock()
		fmt.Fprintf(jf, format+"\n", a...)
		jmu.Unlock()
	}
	// CPU watchdog: decided on consumed CPU time, not wall clock
	var beginCPU atomic.Uint64 // math.Float64bits not needed: store centiseconds
	var beginAlloc atomic.Uint64
	wdSample := []metrics.Sample{{Name: "/gc/heap/allocs:bytes"}}
	wdAlloc := func() uint64 { // the watchdog's own sample slice (metrics.Read is safe to call concurrently)
		metrics.Read(wdSample)
		if wdSample[0].Value.Kind() == metrics.KindUint64 {
			return wdSample[0].Value.Uint64()
		}
		return 0
	}
	var curID atomic.Int64
	var curEntry atomic.Value
	curEntry.Store("")
	go func() {
		for {
			time.Sleep(500 * time.Millisecond)
			start := float64(beginCPU.Load()) / 100
			if start > 0 && cpuSeconds()-start > cpuBudget(wdAlloc()-beginAlloc.Load()) {
				journal("T %d %s", curID.Load(), curEntry.Load().(string))
				os.Exit(17)
			}
		}
	}()
	var ms0, ms1 runtime.MemStats
	allocSample := []metrics.Sample{{Name: "/gc/heap/allocs:bytes"}}
	allocNow := func() uint64 {
		metrics.Read(allocSample)
		if allocSample[0].Value.Kind() == metrics.KindUint64 {
			return allocSample[0].Value.Uint64()
		}
		return 0
	}
	for k := range items {
		it := &items[k]
		es := entries(it)
		runtime.ReadMemStats(&ms0)
		for _, e := range es {
			journal("B %d %s", it.ID, e.name)
			curID.Store(int64(it.ID))
			curEntry.Store(e.name)
			a0 := allocNow()
			beginAlloc.Store(a0)
			beginCPU.Store(uint64(cpuSeconds()*100) + 1)
			outcome := ""
			func() {
				defer func() {
					if p := recover(); p != nil {
						outcome = "panic:" + panicSignature(p, string(debug.Stack()))
					}
				}()
				outcome = e.run(it)
			}()
			beginCPU.Store(0)
			if d := allocNow() - a0; d >= 1<<31 {
				journal("G %d %s %d", it.ID, e.name, d)
			}
			journal("E %d %s %s", it.ID, e.name, strings.ReplaceAll(outcome, "\n", " "))
		}
		runtime.ReadMemStats(&ms1)
		journal("A %d %d", it.ID, ms1.TotalAlloc-ms0.TotalAlloc)
	}
	if profile {
		runtime.GC()
		runtime.GC()
		var recs []runtime.MemProfileRecord
		n, ok := runtime.MemProfile(nil, true)
		for tries := 0; tries < 5; tries++ {
			recs = make([]runtime.MemProfileRecord, n+n/4+1000)
			if n, ok = runtime.MemProfile(recs, true); ok {
				break
			}
		}
		if !ok {
			journal("X profile-incomplete %d", n)
		}
		if ok {
			for _, r := range recs[:n] {
				if r.AllocObjects == 0 {
					continue
				}
				size := r.AllocBytes / r.AllocObjects
				if size < 1<<20 {
					continue
				}
				fn, st := "", ""
				frames := runtime.CallersFrames(r.Stack())
				for {
					f, more := frames.Next()
					if f.Function != "" && !strings.HasPrefix(f.Function, "runtime.") {
						if fn == "" {
							fn = f.Function
						}
						st += f.Function + ";"
					}
					if !more {
						break
					}
				}
				journal("S %d %s %s", size, fn, st)
			}
		}
	}
	jf.Close()
}

// ---- parent side

type workerRun struct {
	mode     string
	ctx      *core.Ctx
	parallel int
	batch    int
}

// runIsolated executes all items in child processes and returns one result per item.
func runIsolated(ctx *core.Ctx, mode string, items []WorkItem, parallel, batch int, rep *core.Report) map[int]*ItemResult {
	results := map[int]*ItemResult{}
	var mu sync.Mutex
	tmp, err := os.MkdirTemp(ctx.BinDir, "work-")
	if err != nil {
		rep.Inconclusive("cannot create work dir: " + err.Error())
		return results
	}
	defer os.RemoveAll(tmp)
	var batches [][]WorkItem
	for i := 0; i < len(items); i += batch {
		j := i + batch
		if j > len(items) {
			j = len(items)
		}
		batches = append(batches, items[i:j])
	}
	sem := make(chan struct{}, parallel)
	var wg sync.WaitGroup
	for bi, b := range batches {
		wg.Add(1)
		sem <- struct{}{}
		go func(bi int, b []WorkItem) {
			defer wg.Done()
			defer func() { <-sem }()
			rs := runBatch(ctx, mode, tmp, fmt.Sprintf("b%d", bi), b, false, rep)
			mu.Lock()
			for id, r := range rs {
				results[id] = r
			}
			mu.Unlock()
		}(bi, b)
	}
	wg.Wait()
	return results
}

// runBatch runs one batch, restarting the worker after a fatal termination (the item that killed it
// is recorded and skipped).
func runBatch(ctx *core.Ctx, mode, dir, tag string, items []WorkItem, profile bool, rep *core.Report) map[int]*ItemResult {
	return runBatchR(ctx, mode, dir, tag, items, profile, rep, false)
}

// runBatchR: isRetry marks the re-run of a single item after a first CPU-budget overrun; a second
// overrun there is final (it is not retried again).
func runBatchR(ctx *core.Ctx, mode, dir, tag string, items []WorkItem, profile bool, rep *core.Report, isRetry bool) map[int]*ItemResult {
	out := map[int]*ItemResult{}
	remaining := items
	attempt := 0
	timeouts := map[int]int{}
	extKills := map[int]int{}
	fatals := 0
	var allSites []AllocSite // accumulated over all attempts (a worker restart must not lose earlier sites)
	for len(remaining) > 0 {
		attempt++
		batchPath := filepath.Join(dir, fmt.Sprintf("%s-%d.gob", tag, attempt))
		journalPath := filepath.Join(dir, fmt.Sprintf("%s-%d.journal", tag, attempt))
		f, err := os.Create(batchPath)
		if err != nil {
			rep.Inconclusive(err.Error())
			return out
		}
		w := bufio.NewWriter(f)
		if err := gob.NewEncoder(w).Encode(remaining); err != nil {
			rep.Inconclusive(err.Error())
			return out
		}
		w.Flush()
		f.Close()
		args := []string{"worker", mode, batchPath, journalPath}
		if profile {
			args = append(args, "profile")
		}
		cmd := exec.Command(ctx.SelfPath, args...)
		stderrPath := filepath.Join(dir, fmt.Sprintf("%s-%d.stderr", tag, attempt))
		sf, _ := os.Create(stderrPath)
		cmd.Stderr = sf
		cmd.Stdout = sf
		runErr := cmd.Run()
		sf.Close()
		jb, _ := os.ReadFile(journalPath)
		var openID = -1
		var openEntry string
		var timedOut bool
		var sites []AllocSite
		for _, line := range strings.Split(string(jb), "\n") {
			parts := strings.SplitN(line, " ", 4)
			if len(parts) < 2 {
				continue
			}
			id, _ := strconv.Atoi(parts[1])
			switch parts[0] {
			case "B":
				if out[id] == nil {
					out[id] = &ItemResult{ID: id, Outcomes: map[string]string{}}
				}
				openID, openEntry = id, parts[2]
			case "E":
				if len(parts) >= 4 {
					out[id].Outcomes[parts[2]] = parts[3]
				} else if len(parts) == 3 {
					out[id].Outcomes[parts[2]] = ""
				}
				openID = -1
			case "A":
				if out[id] == nil {
					out[id] = &ItemResult{ID: id, Outcomes: map[string]string{}}
				}
				if len(parts) >= 3 {
					out[id].Alloc, _ = strconv.ParseUint(parts[2], 10, 64)
				}
			case "X":
				rep.Inconclusive("allocation profile of worker " + tag + " could not be read completely")
			case "T":
				timedOut = true
			case "G":
				if len(parts) >= 4 && out[id] != nil {
					if v, _ := strconv.ParseUint(parts[3], 10, 64); v > out[id].BigAlloc {
						out[id].BigAlloc = v
					}
				}
			case "S":
				if len(parts) >= 4 {
					sz, _ := strconv.ParseInt(parts[1], 10, 64)
					sites = append(sites, AllocSite{Bytes: sz, Func: parts[2], Stack: parts[3]})
				}
			}
		}
		if profile {
			allSites = append(allSites, sites...)
			sort.Slice(allSites, func(i, j int) bool { return allSites[i].Bytes > allSites[j].Bytes })
			for _, r := range out {
				r.Sites = allSites
			}
		}
		if runErr == nil {
			break
		}
		// the worker died: find the item it was running
		if openID < 0 {
			eb, _ := os.ReadFile(stderrPath)
			rep.Inconclusive(fmt.Sprintf("worker %s exited abnormally outside any entry point: %v: %s", tag, runErr, tail(string(eb), 300)))
			return out
		}
		eb, _ := os.ReadFile(stderrPath)
		r := out[openID]
		if timedOut {
			timeouts[openID]++
			if timeouts[openID] < 2 && !isRetry {
				// first overrun: re-run this item alone before judging
				delete(out, openID)
				idx := indexOfItem(remaining, openID)
				single := runBatchR(ctx, mode, dir, fmt.Sprintf("%s-retry%d", tag, openID), remaining[idx:idx+1], profile, rep, true)
				if sr := single[openID]; sr != nil {
					allSites = append(allSites, sr.Sites...)
				}
				if sr := single[openID]; sr != nil {
					out[openID] = sr
				}
				remaining = remaining[idx+1:]
				continue
			}
			r.Timeout = true
			r.Entry = openEntry
		} else if externalKill(string(eb), runErr) && extKills[openID] < 2 {
			// SIGKILL with nothing on stderr does not come from the code under test (the Go runtime reports its
			// own fatal errors, the address-space cap included, before dying): the kernel's OOM killer or an
			// operator ended the worker. Run the input again, up to twice.
			extKills[openID]++
			rep.Count("workers_killed_from_outside_and_rerun", 1)
			delete(out, openID)
			remaining = remaining[indexOfItem(remaining, openID):]
			continue
		} else if externalKill(string(eb), runErr) {
			rep.Inconclusive(fmt.Sprintf("worker %s was killed from outside three times while running input %d in %s", tag, openID, openEntry))
			delete(out, openID)
		} else {
			r.Fatal = fatalClass(string(eb), runErr)
			r.Entry = openEntry
			fatals++
		}
		idx := indexOfItem(remaining, openID)
		remaining = remaining[idx+1:]
		if fatals >= 6 && len(remaining) > 0 {
			// every death is already reported as a violation; restarting the worker over and over for the rest
			// of the batch adds little and can take very long when most inputs kill it
			rep.Note("batch %s: abandoned %d remaining inputs after %d worker deaths", tag, len(remaining), fatals)
			rep.Count("inputs_not_run_after_repeated_worker_deaths", int64(len(remaining)))
			break
		}
	}
	return out
}

func indexOfItem(items []WorkItem, id int) int {
	for i := range items {
		if items[i].ID == id {
			return i
		}
	}
	return len(items) - 1
}

func tail(s string, n int) string {
	if len(s) > n {
		return s[len(s)-n:]
	}
	return s
}

// fatalClass extracts the runtime's fatal message (first "fatal error:" / "panic:" line, and the first frame of the code under test).
func externalKill(stderr string, runErr error) bool {
	return runErr != nil && runErr.Error() == "signal: killed" && !strings.Contains(stderr, "fatal error:") && !strings.Contains(stderr, "panic:") && !strings.Contains(stderr, "goroutine ")
}

func fatalClass(stderr string, runErr error) string {
	class := runErr.Error()
	lines := strings.Split(stderr, "\n")
	for _, l := range lines {
		if strings.HasPrefix(l, "fatal error:") || strings.HasPrefix(l, "runtime: goroutine stack exceeds") || strings.HasPrefix(l, "panic:") || strings.Contains(l, "log.Fatal") {
			class = strings.TrimSpace(l)
			break
		}
	}
	for _, l := range lines {
		l = strings.TrimSpace(l)
		if strings.HasPrefix(l, "github.com/foxglove/mcap/go/") {
			if i := strings.LastIndex(l, "("); i > 0 {
				l = l[:i]
			}
			return strings.TrimPrefix(l, "github.com/foxglove/mcap/go/") + ": " + class
		}
	}
	if len(lines) > 0 && class == runErr.Error() {
		class += ": " + tail(strings.TrimSpace(stderr), 200)
	}
	return class
}

func osMkdirTemp(ctx *core.Ctx) (string, error) { return os.MkdirTemp(ctx.BinDir, "work-") }
func osRemoveAll(dir string)                    { _ = os.RemoveAll(dir) }
