package mon

import (
	"bytes"
	"database/sql"
	"encoding/binary"
	"fmt"
	"math"
	"math/rand"
	"os"
	"path/filepath"
	"sort"
	"strings"

	rosbag "github.com/foxglove/go-rosbag"
	"github.com/foxglove/mcap/go/mcap"
	"github.com/foxglove/mcap/go/ros"

	"verifharness/core"
	"verifharness/drive"
	"verifharness/gen"
	"verifharness/refmcap"
	"verifharness/rosgen"
)

// ---- bag models

func randBagModel(r *rand.Rand) *rosgen.BagModel {
	b := &rosgen.BagModel{Chunked: r.Intn(4) != 0, Compression: []string{"none", "lz4", "mixed"}[r.Intn(3)], MsgsPerChunk: 1 + r.Intn(12), RepeatConnEvery: r.Intn(3) == 0,
		IndexSection: r.Intn(4) != 0, IndexDataRecords: r.Intn(3) != 0, ConnFirst: r.Intn(2) == 0}
	nc := 1 + r.Intn(6)
	types := []struct{ typ, md5, def string }{
		{"std_msgs/String", "992ce8a1687cec8c8bd883ec73ca41d1", "string data\n"},
		{"std_msgs/String", "00000000000000000000000000000001", "string data\n# other revision\n"}, // same type, different md5
		{"geometry_msgs/Point", "4a842b65f413084dc2b10fb484ea7f17", "float64 x\nfloat64 y\nfloat64 z\n"},
		{"pkg/Empty", "d41d8cd98f00b204e9800998ecf8427e", ""},
		// md5sum is a free-form string field of the connection header ("*" is what ROS tools store for
		// untyped topics); type names of which one is a prefix of the other, with checksum strings such that
		// type+checksum coincide, must still be told apart
		{"demo/Vec", "3aaaaaaaaaaaaaaaaaaaaaaaaaaaaaaa", "float64 x\n"},
		{"demo/Vec3", "aaaaaaaaaaaaaaaaaaaaaaaaaaaaaaa", "float64 x\nfloat64 y\nfloat64 z\n"},
		{"demo/Any", "*", ""},
		{"pkg/Nested", "abcdefabcdefabcdefabcdefabcdefab", "Header header\npkg/Inner inner\n================================================================================\nMSG: std_msgs/Header\nuint32 seq\ntime stamp\nstring frame_id\n================================================================================\nMSG: pkg/Inner\nint32[] v\n"},
	}
	used := map[uint32]bool{}
	for i := 0; i < nc; i++ {
		var id uint32
		for {
			switch r.Intn(6) {
			case 0:
				id = 0
			case 1:
				id = 65535
			default:
				id = uint32(r.Intn(40))
			}
			if !used[id] {
				used[id] = true
				break
			}
		}
		t := types[r.Intn(len(types))]
		c := rosgen.BagConn{ID: id, Topic: fmt.Sprintf("/%s/%d", gen.Str(r, true, 20), i), Type: t.typ, MD5: t.md5, Def: t.def, TopicInData: r.Intn(2) == 0}
		if r.Intn(2) == 0 {
			c.Extra = append(c.Extra, rosgen.KV{K: "callerid", V: "/node_" + gen.Str(r, true, 10)})
		}
		if r.Intn(3) == 0 {
			c.Extra = append(c.Extra, rosgen.KV{K: "latching", V: []string{"0", "1"}[r.Intn(2)]})
		}
		b.Conns = append(b.Conns, c)
	}
	nm := r.Intn(60)
	base := uint32(r.Intn(1000))
	for i := 0; i < nm; i++ {
		m := rosgen.BagMsg{Conn: b.Conns[r.Intn(len(b.Conns))].ID}
		switch r.Intn(8) {
		case 0:
			m.Secs, m.Nsecs = math.MaxUint32, 999_999_999
		case 1:
			m.Secs, m.Nsecs = 0, 0
		case 2:
			m.Secs, m.Nsecs = 5, uint32(r.Intn(1_000_000_000)) // above 2^32 nanoseconds: catches 32-bit arithmetic
		default:
			m.Secs, m.Nsecs = base+uint32(i/3), uint32(r.Intn(1_000_000_000))
		}
		switch r.Intn(6) {
		case 0:
			m.Data = nil
		case 1:
			m.Data = make([]byte, 70000+r.Intn(3000))
			r.Read(m.Data)
		default:
			m.Data = make([]byte, r.Intn(200))
			r.Read(m.Data)
		}
		b.Msgs = append(b.Msgs, m)
	}
	// one model in ten: consecutive large messages of slowly growing size (a reader that keeps and reuses
	// its buffers must size them by length, not capacity), and a connection header beyond 1 KiB
	if r.Intn(10) == 0 && len(b.Conns) > 0 {
		size := 1<<20 + r.Intn(1<<20)
		for k := 0; k < 3; k++ {
			d := make([]byte, size)
			r.Read(d)
			b.Msgs = append(b.Msgs, rosgen.BagMsg{Conn: b.Conns[0].ID, Secs: base + 100, Nsecs: uint32(k), Data: d})
			size += 1 + r.Intn(size/5)
		}
		b.Msgs = append(b.Msgs, rosgen.BagMsg{Conn: b.Conns[0].ID, Secs: base + 101, Data: []byte("tail")})
		last := &b.Conns[len(b.Conns)-1]
		last.Def = strings.Repeat("# padding line of a long definition\n", 40+r.Intn(10)) + last.Def
		last.MD5 = fmt.Sprintf("%032x", r.Uint64()) // a different definition is a different (type, md5) pair
	}
	if !b.Chunked {
		b.IndexDataRecords = false
	}
	return b
}

// goRosbagBytes writes the same model with the independent go-rosbag writer (second producer).
func goRosbagBytes(b *rosgen.BagModel) ([]byte, error) {
	var buf bytes.Buffer
	w, err := rosbag.NewWriter(&buf, rosbag.WithChunksize(512))
	if err != nil {
		return nil, err
	}
	for i := range b.Conns {
		c := &b.Conns[i]
		hdr := rosbag.ConnectionHeader{Topic: c.Topic, Type: c.Type, MD5Sum: c.MD5, MessageDefinition: []byte(c.Def)}
		for _, e := range c.Extra {
			switch e.K {
			case "callerid":
				v := e.V
				hdr.CallerID = &v
			case "latching":
				v := e.V == "1"
				hdr.Latching = &v
			}
		}
		if err := w.WriteConnection(&rosbag.Connection{Conn: c.ID, Topic: c.Topic, Data: hdr}); err != nil {
			return nil, err
		}
	}
	for i := range b.Msgs {
		m := &b.Msgs[i]
		if err := w.WriteMessage(&rosbag.Message{Conn: m.Conn, Time: m.Nanos(), Data: m.Data}); err != nil {
			return nil, err
		}
	}
	if err := w.Close(); err != nil {
		return nil, err
	}
	return buf.Bytes(), nil
}

// checkBagReadable makes sure a generated bag is a bag to an independent reader: the go-rosbag
// index-based reader (which follows index_pos, chunk infos and index data offsets) must return exactly
// the model's messages. Only fully indexed chunked layouts can be read that way; the other layouts are
// produced by the same record encoders.
func checkBagReadable(bag []byte, b *rosgen.BagModel) error {
	rd, err := rosbag.NewReader(bytes.NewReader(bag))
	if err != nil {
		return err
	}
	info, err := rd.Info()
	if err != nil {
		return err
	}
	if int(info.MessageCount) != len(b.Msgs) {
		return fmt.Errorf("go-rosbag counts %d messages, model has %d", info.MessageCount, len(b.Msgs))
	}
	it, err := rd.Messages()
	if err != nil {
		return err
	}
	var got, want []string
	for it.More() {
		c, m, err := it.Next()
		if err != nil {
			return err
		}
		got = append(got, fmt.Sprintf("%d|%d|%s|%x", m.Conn, m.Time, c.Topic, m.Data))
	}
	topics := map[uint32]string{}
	for _, c := range b.Conns {
		topics[c.ID] = c.Topic
	}
	for _, m := range b.Msgs {
		want = append(want, fmt.Sprintf("%d|%d|%s|%x", m.Conn, m.Nanos(), topics[m.Conn], m.Data))
	}
	sort.Strings(got)
	sort.Strings(want)
	if d := firstDiffPlain(want, got); d != "" {
		return fmt.Errorf("go-rosbag reads different messages: %s", d)
	}
	return nil
}

func fullyIndexed(b *rosgen.BagModel) bool { return b.Chunked && b.IndexSection && b.IndexDataRecords }

func c18WriterOptions(r *rand.Rand) gen.Config {
	k := gen.Config{Chunked: r.Intn(4) != 0, ChunkSize: []int64{1, 100, 1024, 1 << 20}[r.Intn(4)], Compression: []string{"", "zstd", "lz4"}[r.Intn(3)], IncludeCRC: r.Intn(2) == 0}
	if r.Intn(3) == 0 {
		k.SetFlags(r.Intn(256))
	}
	if k.Compression == "zstd" {
		k.Level = r.Intn(2)
	}
	return k
}

// judgeBagConversion compares the MCAP output with the bag model.
func judgeBagConversion(b *rosgen.BagModel, out []byte, k gen.Config) string {
	f, err := refmcap.Decode(out, nil)
	if err != nil {
		return "output is not a decodable MCAP file: " + err.Error()
	}
	if probs := refmcap.Validate(f, drive.Expect(k)); len(probs) > 0 {
		return "output is not a valid MCAP file: " + probs[0].String()
	}
	hdr, ok := f.Recs[0].Parsed.(*refmcap.Header)
	if !ok || hdr.Profile != "ros1" {
		return "header profile is not ros1"
	}
	schemas := map[uint16]*refmcap.Schema{}
	channels := map[uint16]*refmcap.Channel{}
	var msgs []*refmcap.Message
	var bound []*refmcap.Channel
	visit := func(r *refmcap.Rec) {
		switch v := r.Parsed.(type) {
		case *refmcap.Schema:
			schemas[v.ID] = v
		case *refmcap.Channel:
			channels[v.ID] = v
		case *refmcap.Message:
			msgs = append(msgs, v)
			bound = append(bound, channels[v.ChannelID])
		}
	}
	for _, r := range f.Recs[:f.DataEndIdx] {
		if r.Op == refmcap.OpChunk {
			for _, in := range r.Parsed.(*refmcap.Chunk).Inner {
				visit(in)
			}
			continue
		}
		visit(r)
	}
	if len(msgs) != len(b.Msgs) {
		return fmt.Sprintf("%d MCAP messages for %d bag messages", len(msgs), len(b.Msgs))
	}
	conns := map[uint32]*rosgen.BagConn{}
	for i := range b.Conns {
		conns[b.Conns[i].ID] = &b.Conns[i]
	}
	for i, m := range msgs {
		bm := b.Msgs[i]
		if !bytes.Equal(m.Data, bm.Data) {
			return fmt.Sprintf("message %d: payload differs from the bag message", i)
		}
		if m.LogTime != bm.Nanos() || m.PublishTime != bm.Nanos() {
			return fmt.Sprintf("message %d: log/publish time %d/%d, bag time is %d ns (%d s %d ns)", i, m.LogTime, m.PublishTime, bm.Nanos(), bm.Secs, bm.Nsecs)
		}
		ch := bound[i]
		c := conns[bm.Conn]
		if ch == nil {
			return fmt.Sprintf("message %d: no channel record precedes it", i)
		}
		if uint32(ch.ID) != bm.Conn || ch.Topic != c.Topic {
			return fmt.Sprintf("message %d: channel id/topic %d/%q, connection is %d/%q", i, ch.ID, ch.Topic, bm.Conn, c.Topic)
		}
		if ch.MessageEncoding != "ros1" {
			return fmt.Sprintf("message %d: message encoding %q", i, ch.MessageEncoding)
		}
		want := map[string]string{"md5sum": c.MD5}
		if c.TopicInData {
			want["topic"] = c.Topic
		}
		for _, e := range c.Extra {
			want[e.K] = e.V
		}
		got := map[string]string{}
		for _, e := range ch.Metadata {
			got[e.K] = e.V
		}
		if len(got) != len(want) {
			return fmt.Sprintf("message %d: channel metadata %v, connection header fields %v", i, got, want)
		}
		for kk, v := range want {
			if got[kk] != v {
				return fmt.Sprintf("message %d: channel metadata %q=%q, connection header has %q", i, kk, got[kk], v)
			}
		}
		s := schemas[ch.SchemaID]
		if s == nil {
			return fmt.Sprintf("message %d: channel refers to schema %d which does not exist", i, ch.SchemaID)
		}
		if s.Name != c.Type || s.Encoding != "ros1msg" || string(s.Data) != c.Def {
			return fmt.Sprintf("message %d: schema %q/%q with %d definition bytes, connection has type %q and %d definition bytes", i, s.Name, s.Encoding, len(s.Data), c.Type, len(c.Def))
		}
	}
	distinct := map[string]bool{}
	for _, c := range b.Conns {
		distinct[c.Type+"\x00"+c.MD5] = true
	}
	if len(schemas) != len(distinct) {
		return fmt.Sprintf("%d schemas for %d distinct (type, md5) pairs", len(schemas), len(distinct))
	}
	return ""
}

func checkBagCase(ctx *core.Ctx, i int, rep *core.Report) {
	r := gen.Rng(ctx.Seed, "c18bag", i)
	b := randBagModel(r)
	k := c18WriterOptions(r)
	witness := map[string]any{"bag_case": i, "config": k.String()}
	var bag []byte
	var err error
	producer := "rosgen"
	if i%4 == 3 {
		producer = "go-rosbag"
		bag, err = goRosbagBytes(b)
		// the go-rosbag writer lists the topic in the connection header data
		for ci := range b.Conns {
			b.Conns[ci].TopicInData = true
		}
	} else {
		bag, err = b.Encode(nil)
	}
	if err != nil {
		rep.Inconclusive(fmt.Sprintf("bag case %d: producer %s failed: %v", i, producer, err))
		return
	}
	if producer == "rosgen" && fullyIndexed(b) {
		if err := checkBagReadable(bag, b); err != nil {
			rep.Inconclusive(fmt.Sprintf("bag case %d (%s): generated bag is not what go-rosbag reads: %v", i, producer, err))
			return
		}
		rep.Count("bags_read_back_by_go_rosbag", 1)
	}
	rep.Eval(1)
	rep.Count("bags_"+producer, 1)
	rep.Count("bag_messages", int64(len(b.Msgs)))
	if len(b.Msgs) > 0 {
		rep.Distinct("bag", i)
	}
	var out bytes.Buffer
	var cerr error
	p := core.Safe(func() { cerr = ros.Bag2MCAP(&out, bytes.NewReader(bag), drive.Options(k)) })
	desc := fmt.Sprintf("bag case %d (%s; %d connections, %d messages, chunked=%v/%s; writer %s)", i, producer, len(b.Conns), len(b.Msgs), b.Chunked, b.Compression, k)
	if p != nil {
		rep.Violate("bag-panic", desc+": Bag2MCAP panicked: "+p.Error(), witness)
		return
	}
	if cerr != nil {
		rep.Violate("bag-valid-rejected", desc+": Bag2MCAP failed on a valid bag: "+cerr.Error(), witness)
		return
	}
	if problem := judgeBagConversion(b, out.Bytes(), k); problem != "" {
		rep.Violate("bag-conversion", desc+": "+problem, witness)
		return
	}
	if i%60 == 0 {
		rep.Sample(map[string]any{"bag_case": i, "producer": producer, "connections": len(b.Conns), "messages": len(b.Msgs), "bag_bytes": len(bag), "mcap_bytes": out.Len(), "writer": k.String()})
	}
}

// ---- db3

func randDB3Model(r *rand.Rand) *rosgen.DB3Model {
	m := &rosgen.DB3Model{HasQoSColumn: r.Intn(3) != 0}
	files, tops := rosgen.RandMsgTree(r)
	m.MsgFiles = files
	nt := 1 + r.Intn(5)
	ids := r.Perm(40)
	for i := 0; i < nt; i++ {
		t := rosgen.DB3Topic{ID: 1 + ids[i], Name: fmt.Sprintf("/topic_%d/%s", i, gen.Str(r, true, 10)), Format: []string{"cdr", "cdr", "custom_fmt"}[r.Intn(3)], QoS: ""}
		if r.Intn(6) == 0 {
			t.Type = []string{"pkg_a/srv/Thing", "pkg_a/action/Act", "notamessage"}[r.Intn(3)]
		} else {
			t.Type = tops[r.Intn(len(tops))]
		}
		if r.Intn(2) == 0 {
			t.QoS = "- history: 3\n  depth: 0\n  reliability: " + fmt.Sprint(r.Intn(3))
		}
		m.Topics = append(m.Topics, t)
	}
	sort.Slice(m.Topics, func(i, j int) bool { return m.Topics[i].ID < m.Topics[j].ID })
	nr := r.Intn(80)
	base := int64(1_600_000_000_000_000_000)
	for i := 0; i < nr; i++ {
		t := m.Topics[r.Intn(len(m.Topics))]
		if !rosgen.IsMessageType(t.Type) && r.Intn(3) != 0 {
			continue // rows on non-message topics are rare
		}
		row := rosgen.DB3Row{TopicID: t.ID}
		switch r.Intn(5) {
		case 0:
			row.Timestamp = base // heavy ties
		case 1:
			row.Timestamp = int64(r.Intn(5))
		default:
			row.Timestamp = base + int64(r.Intn(1000))
		}
		row.Data = make([]byte, 1+r.Intn(100))
		r.Read(row.Data)
		m.Rows = append(m.Rows, row)
	}
	return m
}

func judgeDB3Conversion(m *rosgen.DB3Model, out []byte, k gen.Config) string {
	f, err := refmcap.Decode(out, nil)
	if err != nil {
		return "output is not a decodable MCAP file: " + err.Error()
	}
	if probs := refmcap.Validate(f, drive.Expect(k)); len(probs) > 0 {
		return "output is not a valid MCAP file: " + probs[0].String()
	}
	if hdr, ok := f.Recs[0].Parsed.(*refmcap.Header); !ok || hdr.Profile != "ros2" {
		return "header profile is not ros2"
	}
	schemas := map[uint16]*refmcap.Schema{}
	channels := map[uint16]*refmcap.Channel{}
	var msgs []*refmcap.Message
	visit := func(r *refmcap.Rec) {
		switch v := r.Parsed.(type) {
		case *refmcap.Schema:
			schemas[v.ID] = v
		case *refmcap.Channel:
			channels[v.ID] = v
		case *refmcap.Message:
			msgs = append(msgs, v)
		}
	}
	for _, r := range f.Recs[:f.DataEndIdx] {
		if r.Op == refmcap.OpChunk {
			for _, in := range r.Parsed.(*refmcap.Chunk).Inner {
				visit(in)
			}
			continue
		}
		visit(r)
	}
	topics := map[int]*rosgen.DB3Topic{}
	nMsgTopics := 0
	for i := range m.Topics {
		topics[m.Topics[i].ID] = &m.Topics[i]
		if rosgen.IsMessageType(m.Topics[i].Type) {
			nMsgTopics++
		}
	}
	if len(channels) != nMsgTopics {
		return fmt.Sprintf("%d channels for %d message-typed topics", len(channels), nMsgTopics)
	}
	for id, ch := range channels {
		t := topics[int(id)]
		if t == nil || !rosgen.IsMessageType(t.Type) {
			return fmt.Sprintf("channel %d does not correspond to a message-typed topic", id)
		}
		if ch.Topic != t.Name || ch.MessageEncoding != t.Format {
			return fmt.Sprintf("channel %d: topic/encoding %q/%q, database has %q/%q", id, ch.Topic, ch.MessageEncoding, t.Name, t.Format)
		}
		md := map[string]string{}
		for _, e := range ch.Metadata {
			md[e.K] = e.V
		}
		if m.HasQoSColumn {
			if len(md) != 1 || md["offered_qos_profiles"] != t.QoS {
				return fmt.Sprintf("channel %d: metadata %v, offered_qos_profiles in the database is %q", id, md, t.QoS)
			}
		} else if len(md) != 0 {
			return fmt.Sprintf("channel %d: metadata %v although the database has no QoS column", id, md)
		}
		s := schemas[ch.SchemaID]
		if s == nil {
			return fmt.Sprintf("channel %d refers to missing schema %d", id, ch.SchemaID)
		}
		want, err := rosgen.ExpectedSchema(m.MsgFiles, t.Type)
		if err != nil {
			return "harness: " + err.Error()
		}
		if s.Name != t.Type || s.Encoding != "ros2msg" || string(s.Data) != want {
			return fmt.Sprintf("channel %d: schema %q/%q differs from the concatenation of the definition files of %s:\n--- got\n%s\n--- want\n%s", id, s.Name, s.Encoding, t.Type, s.Data, want)
		}
	}
	// messages: exactly the stored rows of message-typed topics, timestamps non-decreasing, per-topic sequence 0,1,2...
	var wantRows []string
	for _, r := range m.Rows {
		if rosgen.IsMessageType(topics[r.TopicID].Type) {
			wantRows = append(wantRows, fmt.Sprintf("%d|%d|%x", r.TopicID, r.Timestamp, r.Data))
		}
	}
	var gotRows []string
	seq := map[uint16]uint32{}
	for i, mm := range msgs {
		if i > 0 && mm.LogTime < msgs[i-1].LogTime {
			return fmt.Sprintf("message %d: timestamp %d after %d (not in timestamp order)", i, mm.LogTime, msgs[i-1].LogTime)
		}
		if mm.PublishTime != mm.LogTime {
			return fmt.Sprintf("message %d: publish time %d differs from log time %d", i, mm.PublishTime, mm.LogTime)
		}
		if mm.Sequence != seq[mm.ChannelID] {
			return fmt.Sprintf("message %d on channel %d: sequence %d, expected %d (per-topic counter)", i, mm.ChannelID, mm.Sequence, seq[mm.ChannelID])
		}
		seq[mm.ChannelID]++
		gotRows = append(gotRows, fmt.Sprintf("%d|%d|%x", mm.ChannelID, int64(mm.LogTime), mm.Data))
	}
	sort.Strings(wantRows)
	sort.Strings(gotRows)
	if d := firstDiffPlain(wantRows, gotRows); d != "" {
		return "messages differ from the stored rows of message-typed topics: " + d
	}
	return ""
}

func checkDB3Case(ctx *core.Ctx, i int, rep *core.Report) {
	r := gen.Rng(ctx.Seed, "c18db3", i)
	m := randDB3Model(r)
	k := c18WriterOptions(r)
	witness := map[string]any{"db3_case": i, "config": k.String()}
	dir, err := os.MkdirTemp(ctx.BinDir, "db3-")
	if err != nil {
		rep.Inconclusive(err.Error())
		return
	}
	defer os.RemoveAll(dir)
	dbPath, search, err := m.Write(dir)
	if err != nil {
		rep.Inconclusive(fmt.Sprintf("db3 case %d: cannot build database: %v", i, err))
		return
	}
	rep.Eval(1)
	rep.Count("databases", 1)
	rep.Count("db3_rows", int64(len(m.Rows)))
	rowsOnNonMessage := 0
	tm := map[int]string{}
	for _, t := range m.Topics {
		tm[t.ID] = t.Type
	}
	for _, row := range m.Rows {
		if !rosgen.IsMessageType(tm[row.TopicID]) {
			rowsOnNonMessage++
		}
	}
	if rowsOnNonMessage > 0 {
		rep.Count("databases_with_rows_on_non_message_topics", 1)
	}
	if len(m.Rows) > 0 {
		rep.Distinct("db3", i)
	}
	var out bytes.Buffer
	var cerr error
	p := core.Safe(func() {
		db, err := sql.Open("sqlite3", dbPath)
		if err != nil {
			cerr = err
			return
		}
		defer db.Close()
		cerr = ros.DB3ToMCAP(&out, db, drive.Options(k), []string{search})
	})
	desc := fmt.Sprintf("db3 case %d (%d topics, %d rows, %d on non-message topics, qos column %v; writer %s)", i, len(m.Topics), len(m.Rows), rowsOnNonMessage, m.HasQoSColumn, k)
	if p != nil {
		rep.Violate("db3-panic", desc+": DB3ToMCAP panicked: "+p.Error(), witness)
		return
	}
	if cerr != nil {
		kind := "db3-valid-rejected"
		if rowsOnNonMessage > 0 && strings.Contains(cerr.Error(), "unrecognized channel") {
			kind = "db3-rows-on-non-message-topic-abort-conversion"
		}
		rep.Violate(kind, desc+": DB3ToMCAP failed on a valid database: "+cerr.Error(), witness)
		return
	}
	if problem := judgeDB3Conversion(m, out.Bytes(), k); problem != "" {
		rep.Violate("db3-conversion", desc+": "+problem, witness)
		return
	}
	if i%40 == 0 {
		rep.Sample(map[string]any{"db3_case": i, "topics": len(m.Topics), "rows": len(m.Rows), "msg_files": len(m.MsgFiles), "mcap_bytes": out.Len(), "writer": k.String()})
	}
}

// ---- corrupt bags in the isolated worker

func c18Entries(it *WorkItem) []entry {
	return []entry{{"Bag2MCAP", func(it *WorkItem) string {
		var out bytes.Buffer
		err := ros.Bag2MCAP(&out, bytes.NewReader(it.Data), &mcap.WriterOptions{Chunked: true, ChunkSize: 1024})
		if err != nil {
			return "error"
		}
		return "data"
	}}}
}

func init() { workerModes["c18"] = c18Entries }

func c18CorruptInputs(ctx *core.Ctx, n int) []WorkItem {
	var items []WorkItem
	add := func(kind string, d []byte) {
		items = append(items, WorkItem{ID: len(items), Kind: kind, Data: d})
	}
	r := gen.Rng(ctx.Seed, "c18c", 0)
	var bases [][]byte
	var fieldLists [][]rosgen.FieldPos
	for i := 0; i < 12; i++ {
		b := randBagModel(gen.Rng(ctx.Seed, "c18cb", i))
		if len(b.Msgs) > 12 {
			b.Msgs = b.Msgs[:12]
		}
		for k := range b.Msgs {
			if len(b.Msgs[k].Data) > 300 {
				b.Msgs[k].Data = b.Msgs[k].Data[:300]
			}
		}
		var fs []rosgen.FieldPos
		bag, err := b.Encode(&fs)
		if err == nil {
			bases = append(bases, bag)
			fieldLists = append(fieldLists, fs)
		}
	}
	// bad magic
	for _, m := range []string{"", "#ROSBAG V1.2\n", "#ROSBAG V2.0", "\x89MCAP0\r\n", "#ROSBAG V2.0\r"} {
		add("bad-magic", append([]byte(m), bases[0][13:]...))
		add("bad-magic-short", []byte(m))
	}
	// truncation at every byte of two small bags (the 4 KiB header padding is sampled)
	for bi := 0; bi < 2; bi++ {
		b := bases[bi]
		for n := 0; n < len(b); n++ {
			if n > 60 && n < 4090 && n%97 != 0 {
				continue
			}
			add("truncated", b[:n])
		}
	}
	// hostile values at every length field
	vals := []uint32{0, 1, 2, 3, 4, 5, 1 << 10, 1<<31 - 1, 1 << 31, 1<<31 + 1, math.MaxUint32 - 1, math.MaxUint32}
	for bi, b := range bases {
		for _, f := range fieldLists[bi] {
			for _, v := range vals {
				d := append([]byte(nil), b...)
				binary.LittleEndian.PutUint32(d[f.Off:], v)
				add("length:"+f.Name, d)
			}
			for _, dv := range []int{-1, 1} {
				d := append([]byte(nil), b...)
				binary.LittleEndian.PutUint32(d[f.Off:], binary.LittleEndian.Uint32(b[f.Off:])+uint32(dv))
				add("length-offbyone:"+f.Name, d)
			}
		}
	}
	// empty op value, missing op, short conn / time values, missing '='
	mk := func(fields ...rosgen.KV) []byte {
		var h []byte
		for _, f := range fields {
			h = binary.LittleEndian.AppendUint32(h, uint32(len(f.K)+1+len(f.V)))
			h = append(h, f.K...)
			h = append(h, '=')
			h = append(h, f.V...)
		}
		return h
	}
	rec := func(h, data []byte) []byte {
		out := binary.LittleEndian.AppendUint32(nil, uint32(len(h)))
		out = append(out, h...)
		out = binary.LittleEndian.AppendUint32(out, uint32(len(data)))
		return append(out, data...)
	}
	magic := []byte("#ROSBAG V2.0\n")
	conn := rec(mk(rosgen.KV{K: "op", V: "\x07"}, rosgen.KV{K: "conn", V: "\x01\x00\x00\x00"}, rosgen.KV{K: "topic", V: "/t"}), mk(rosgen.KV{K: "type", V: "a/B"}, rosgen.KV{K: "md5sum", V: "x"}, rosgen.KV{K: "message_definition", V: ""}))
	specials := [][]byte{
		rec(mk(rosgen.KV{K: "op", V: ""}), nil),
		rec(mk(rosgen.KV{K: "nop", V: "x"}), nil),
		rec([]byte{3, 0, 0, 0, 'o', 'p', 'x'}, nil), // field without '='
		rec(mk(rosgen.KV{K: "op", V: "\x07"}, rosgen.KV{K: "conn", V: "\x01"}, rosgen.KV{K: "topic", V: "/t"}), nil),
		rec(mk(rosgen.KV{K: "op", V: "\x07"}, rosgen.KV{K: "conn", V: ""}, rosgen.KV{K: "topic", V: "/t"}), nil),
		append(append([]byte(nil), conn...), rec(mk(rosgen.KV{K: "op", V: "\x02"}, rosgen.KV{K: "conn", V: "\x01\x00\x00\x00"}, rosgen.KV{K: "time", V: "\x01\x02\x03"}), []byte("d"))...),
		append(append([]byte(nil), conn...), rec(mk(rosgen.KV{K: "op", V: "\x02"}, rosgen.KV{K: "conn", V: "\x01\x00"}, rosgen.KV{K: "time", V: "\x01\x02\x03\x04\x05\x06\x07\x08"}), []byte("d"))...),
		append(append([]byte(nil), conn...), rec(mk(rosgen.KV{K: "op", V: "\x02"}, rosgen.KV{K: "conn", V: "\x01\x00\x00\x00"}, rosgen.KV{K: "time", V: ""}), []byte("d"))...),
		rec(mk(rosgen.KV{K: "op", V: "\x02"}, rosgen.KV{K: "conn", V: "\x09\x00\x00\x00"}, rosgen.KV{K: "time", V: "\x01\x02\x03\x04\x05\x06\x07\x08"}), []byte("message before its connection")),
		rec(mk(rosgen.KV{K: "op", V: "\x07"}, rosgen.KV{K: "conn", V: "\x00\x00\x01\x00"}, rosgen.KV{K: "topic", V: "/t"}), mk(rosgen.KV{K: "type", V: "a/B"})), // connection id 65536
		rec(mk(rosgen.KV{K: "op", V: "\x07"}, rosgen.KV{K: "conn", V: "\x01\x00\x00\x00"}, rosgen.KV{K: "topic", V: "/t"}), []byte{9, 0, 0, 0, 'x'}),            // connection data field overruns
		rec(mk(rosgen.KV{K: "op", V: "\x07"}, rosgen.KV{K: "conn", V: "\x01\x00\x00\x00"}, rosgen.KV{K: "topic", V: "/t"}), []byte{1, 0}),                       // short connection data
		rec(mk(rosgen.KV{K: "op", V: "\x05"}, rosgen.KV{K: "compression", V: "bz2"}, rosgen.KV{K: "size", V: "\x10\x00\x00\x00"}), []byte("not bzip2")),
		rec(mk(rosgen.KV{K: "op", V: "\x05"}, rosgen.KV{K: "compression", V: "lz4"}, rosgen.KV{K: "size", V: "\x10\x00\x00\x00"}), []byte("not lz4 at all.....")),
		rec(mk(rosgen.KV{K: "op", V: "\x05"}, rosgen.KV{K: "compression", V: "zip"}, rosgen.KV{K: "size", V: "\x10\x00\x00\x00"}), []byte("x")),
		rec(mk(rosgen.KV{K: "op", V: "\x05"}, rosgen.KV{K: "size", V: "\x10\x00\x00\x00"}), []byte("x")),                                                                                // chunk without compression field
		rec(mk(rosgen.KV{K: "op", V: "\x05"}, rosgen.KV{K: "compression", V: "none"}), rec(mk(rosgen.KV{K: "op", V: "\x05"}, rosgen.KV{K: "compression", V: "none"}), []byte{1, 2, 3})), // nested chunk with garbage
	}
	for _, s := range specials {
		add("malformed-record", append(append([]byte(nil), magic...), s...))
	}
	// random bytes after the magic, bit flips
	for len(items) < n {
		switch r.Intn(3) {
		case 0:
			b := make([]byte, r.Intn(400))
			r.Read(b)
			add("random-after-magic", append(append([]byte(nil), magic...), b...))
		default:
			b := append([]byte(nil), bases[r.Intn(len(bases))]...)
			for k := 0; k < 1+r.Intn(3); k++ {
				p := r.Intn(len(b))
				if p > 60 && p < 4090 {
					p = 13 + r.Intn(47)
				}
				b[p] ^= 1 << uint(r.Intn(8))
			}
			add("bit-flips", b)
		}
	}
	return items
}

func judgeC18Corrupt(rep *core.Report, items []WorkItem, results map[int]*ItemResult) {
	for i := range items {
		it := &items[i]
		res := results[it.ID]
		if res == nil {
			continue
		}
		rep.Eval(1)
		witness := map[string]any{"corrupt_kind": it.Kind, "input_hex": core.Hex(it.Data)}
		if len(it.Data) > 6000 {
			witness["input_hex"] = core.Hex(it.Data[:6000]) + "...(truncated)"
		}
		if res.Fatal != "" {
			rep.Violate("bag-fatal:"+res.Fatal, fmt.Sprintf("corrupt bag %d (%s, %d bytes): the process terminated inside Bag2MCAP: %s", it.ID, it.Kind, len(it.Data), res.Fatal), witness)
			continue
		}
		if res.Timeout {
			rep.Violate("bag-cpu-budget", fmt.Sprintf("corrupt bag %d (%s): CPU budget exceeded twice", it.ID, it.Kind), witness)
			continue
		}
		o := res.Outcomes["Bag2MCAP"]
		core.NotePattern(rep, "corrupt_bag_outcomes", strings.SplitN(it.Kind, ":", 2)[0]+"="+firstWord(o))
		if strings.HasPrefix(o, "panic:") {
			rep.Violate("bag-"+o, fmt.Sprintf("corrupt bag %d (%s, %d bytes): Bag2MCAP panicked: %s", it.ID, it.Kind, len(it.Data), strings.TrimPrefix(o, "panic:")), witness)
			continue
		}
		if o == "data" || o == "error" {
			rep.Distinct("corrupt", it.ID)
		}
	}
}

func RunC18(ctx *core.Ctx, rep *core.Report) {
	rep.Rule = "ROS 1: bag files (format 2.0) encoded from random models by an independent bag writer (3 in 4) and by the go-rosbag writer (1 in 4), each first read back by the independent go-rosbag reader: 1-6 connections incl. ids 0 and 65535, same type with different md5, repeated connection records in chunks and in the index section, extra header fields, empty and 70 KB messages, times 0 .. 2^32-1 s + 999999999 ns, chunked none/lz4 or unchunked, index data / chunk info records; converted by ros.Bag2MCAP under random writer options and decoded by the reference decoder/validator. " +
		"ROS 2: sqlite databases created through database/sql (with/without QoS column, ties, topics without rows, non-message topic types with and without rows) plus a generated ament-index tree of .msg files (nested, shared, qualified and unqualified sub-types, bounded fields, comments, constants); ros.DB3ToMCAP output compared with the stored rows, per-topic sequence, channel metadata and the schema concatenation rule. " +
		"Corrupt bags in an isolated worker: bad magic, truncation at every byte, every length field set to hostile values, malformed records (empty op, short conn/time, missing '='), random bytes, bit flips: the call must return. distinct_nontrivial counts distinct non-empty bags/databases converted plus corrupt inputs on which the call returned."
	rep.Assumptions = []string{"generated bags are valid: an independent reader (go-rosbag) reads back exactly the model", "bz2-compressed bags are not generated (no bzip2 encoder available offline)", "message sequence numbers of bag conversions are not judged (not part of the property)"}
	nb, nd, nc := ctx.Pick(300, 20000), ctx.Pick(120, 5000), ctx.Pick(15000, 1000000)
	core.Parallel(ctx, rep, nb, func(i int) { checkBagCase(ctx, i, rep) })
	core.Parallel(ctx, rep, nd, func(i int) { checkDB3Case(ctx, i, rep) })
	items := c18CorruptInputs(ctx, nc)
	kinds := map[string]int{}
	for _, it := range items {
		kinds[strings.SplitN(it.Kind, ":", 2)[0]]++
	}
	for k, v := range kinds {
		rep.Count("corrupt_"+k, int64(v))
	}
	results := runIsolated(ctx, "c18", items, 8, 600, rep)
	if len(results) < len(items) {
		rep.Inconclusive(fmt.Sprintf("only %d of %d corrupt inputs have results", len(results), len(items)))
	}
	judgeC18Corrupt(rep, items, results)
}

var _ = filepath.Join
