package mon

import (
	"bytes"
	"fmt"
	"math/rand"
	"sort"
	"strings"

	"github.com/foxglove/mcap/go/mcap"

	"verifharness/core"
	"verifharness/drive"
	"verifharness/gen"
	"verifharness/refmcap"
)

// attachmentPrefix reports whether got is the same attachment as full with a proper prefix of its data.
func attachmentPrefix(full, got string) bool {
	if len(full) == 0 || len(got) == 0 || full[0] != refmcap.OpAttachment || got[0] != refmcap.OpAttachment {
		return false
	}
	split := func(c string) (head string, data string, ok bool) {
		// canonical attachment: log_time, create_time, name, media_type, data (uint64 length prefix)
		b := []byte(c[1:])
		off := 16
		for k := 0; k < 2; k++ {
			if len(b) < off+4 {
				return "", "", false
			}
			n := int(uint32(b[off]) | uint32(b[off+1])<<8 | uint32(b[off+2])<<16 | uint32(b[off+3])<<24)
			off += 4 + n
		}
		if len(b) < off+8 {
			return "", "", false
		}
		return string(b[:off]), string(b[off+8:]), true
	}
	fh, fd, ok1 := split(full)
	gh, gd, ok2 := split(got)
	return ok1 && ok2 && fh == gh && len(gd) < len(fd) && strings.HasPrefix(fd, gd)
}

// outsPrefix checks that got is a prefix of full (the last element may be an attachment cut inside its data).
func outsPrefix(full, got []drive.Out) string {
	if len(got) > len(full) {
		return fmt.Sprintf("returned %d records, the complete file yields only %d", len(got), len(full))
	}
	for i := range got {
		if got[i].Op == full[i].Op && got[i].Canon == full[i].Canon {
			continue
		}
		if i == len(got)-1 && got[i].AttReadErr != nil && attachmentPrefix(full[i].Canon, got[i].Canon) {
			continue
		}
		return fmt.Sprintf("record %d differs from the original: got %s, original %s", i, drive.Describe(got[i].Canon), drive.Describe(full[i].Canon))
	}
	return ""
}

// cumulativeOuts returns, for a lexer configuration, how many outputs the top-level records up to and
// including record i produce (counted on the reference decoder's view of the complete file).
func cumulativeOuts(f *refmcap.File, attachCB bool) (ends []int, cum []int) {
	n := 0
	for _, r := range f.Recs {
		switch r.Op {
		case refmcap.OpChunk:
			if ch, ok := r.Parsed.(*refmcap.Chunk); ok {
				for _, in := range ch.Inner {
					if in.Op >= 1 && in.Op <= 0x0f {
						n++
					}
				}
			}
		case refmcap.OpAttachment:
			if attachCB {
				n++
			}
		default:
			if r.Op >= 1 && r.Op <= 0x0f {
				n++
			}
		}
		ends = append(ends, r.End())
		cum = append(cum, n)
	}
	return
}

// cumulativeMessages: messages contained in top-level records up to and including record i.
func cumulativeMessages(f *refmcap.File) (ends []int, cum []int) {
	n := 0
	for _, r := range f.Recs {
		switch r.Op {
		case refmcap.OpChunk:
			if ch, ok := r.Parsed.(*refmcap.Chunk); ok {
				for _, in := range ch.Inner {
					if in.Op == refmcap.OpMessage {
						n++
					}
				}
			}
		case refmcap.OpMessage:
			if f.DataEndIdx < 0 || r.Off < f.Recs[f.DataEndIdx].Off {
				n++
			}
		}
		ends = append(ends, r.End())
		cum = append(cum, n)
	}
	return
}

func requiredAt(ends, cum []int, n int) int {
	req := 0
	for i, e := range ends {
		if e <= n {
			req = cum[i]
		} else {
			break
		}
	}
	return req
}

// smallFileCase draws a (workload, configuration) whose file is small enough to enumerate every byte.
func smallFileCase(ctx *core.Ctx, stream string, i int) *Case {
	r := gen.Rng(ctx.Seed, stream, i)
	c := &Case{Index: i, Seed: ctx.Seed}
	c.Shape = gen.Shape{Schemas: 1 + r.Intn(2), Channels: 1 + r.Intn(3), Messages: 4 + r.Intn(14), Attachments: r.Intn(3), Metadata: r.Intn(2), MaxPayload: 60 + r.Intn(120), MaxLongStr: 30,
		ManyMapKeys: 2, TimeMode: []string{"asc", "smallrand", "ties", "desc"}[r.Intn(4)], Rewrites: r.Intn(3) == 0}
	c.W = gen.RandWorkload(r, c.Shape)
	kinds := []struct {
		chunked bool
		comp    string
	}{{true, ""}, {true, "zstd"}, {true, "lz4"}, {false, ""}}
	k := kinds[i%4]
	c.K = gen.Config{Chunked: k.chunked, Compression: k.comp, ChunkSize: []int64{100, 300, 600, 1 << 20}[r.Intn(4)], IncludeCRC: r.Intn(4) != 0,
		SkipMessageIndexing: r.Intn(4) == 0, SkipStatistics: r.Intn(5) == 0, SkipSummaryOffsets: r.Intn(4) == 0}
	return c
}

const c09Stripes = 4

// bigFileCase: a file holding a record above 1 MiB and chunks above 64 KiB, too large to cut at every
// byte; the cuts are all positions within 64 bytes after every top-level record boundary, after every
// chunk payload start and around the huge record, plus seeded positions in between.
func bigFileCase(ctx *core.Ctx, i int) *Case {
	r := gen.Rng(ctx.Seed, "c09big", i)
	c := &Case{Index: 1_000_000 + i, Seed: ctx.Seed}
	c.Shape = gen.Shape{Schemas: 1, Channels: 2, Messages: 6 + r.Intn(5), Attachments: 1, Metadata: 1, MaxPayload: 30000, MaxLongStr: 30, ManyMapKeys: 2, TimeMode: "asc", HugeRecords: true}
	c.W = gen.RandWorkload(r, c.Shape)
	for _, m := range c.W.Messages() {
		if len(m.Data) < 20000 {
			m.Data = append(m.Data, make([]byte, 20000+r.Intn(20000))...)
		}
	}
	kinds := []struct {
		chunked bool
		comp    string
	}{{true, ""}, {false, ""}, {true, "zstd"}, {true, "lz4"}}
	k := kinds[i%4]
	c.K = gen.Config{Chunked: k.chunked, Compression: k.comp, ChunkSize: []int64{100 << 10, 300 << 10}[r.Intn(2)], IncludeCRC: r.Intn(2) == 0, SkipMessageIndexing: r.Intn(3) == 0}
	return c
}

// cutsFor returns the cut positions to enumerate: every byte for small files, the boundary
// neighbourhoods plus seeded samples for big ones.
func cutsFor(f *refmcap.File, n int, seed int64) []int {
	if n <= 16<<10 {
		out := make([]int, n)
		for i := range out {
			out[i] = i
		}
		return out
	}
	set := map[int]bool{}
	add := func(p int) {
		for d := -2; d < 64; d++ {
			if p+d >= 0 && p+d < n {
				set[p+d] = true
			}
		}
	}
	for _, r := range f.Recs {
		add(r.Off)
		add(r.Off + 9)
		add(r.End())
		if ch, ok := r.Parsed.(*refmcap.Chunk); ok {
			add(ch.RecordsOff)
			// inner record boundaries map to file positions only for uncompressed chunks
			if ch.Compression == "" {
				for _, in := range ch.Inner {
					add(ch.RecordsOff + in.Off)
					add(ch.RecordsOff + in.Off + 9)
				}
			}
		}
	}
	rr := rand.New(rand.NewSource(seed))
	for k := 0; k < 400; k++ {
		set[rr.Intn(n)] = true
	}
	out := make([]int, 0, len(set))
	for p := range set {
		out = append(out, p)
	}
	sort.Ints(out)
	return out
}

func checkC09Case(ctx *core.Ctx, i int, rep *core.Report) {
	for s := 0; s < c09Stripes; s++ {
		checkC09Job(ctx, i, s, rep)
	}
}

// checkC09Job enumerates the cut positions congruent to stripe modulo c09Stripes.
func checkC09Job(ctx *core.Ctx, i, stripe int, rep *core.Report) {
	c := smallFileCase(ctx, "c09", i)
	if i >= 1_000_000 {
		c = bigFileCase(ctx, i-1_000_000)
	}
	res := writeClean(c, rep)
	if res == nil {
		return
	}
	data := res.Bytes()
	f, err := decodeRef(c, data)
	if err != nil {
		rep.Inconclusive("reference decoder failed on a written file: " + err.Error())
		return
	}
	witness := c.Witness()
	witness["c09_case"] = i
	rep.Distinct(c.Shape.String(), c.K.String())
	if stripe == 0 {
		rep.Count("files", 1)
		rep.Count("file_bytes", int64(len(data)))
	}
	ends, cum := cumulativeOuts(f, true)
	mends, mcum := cumulativeMessages(f)
	type cfg struct {
		name     string
		validate bool
	}
	fullLex := map[bool]*drive.LexResult{}
	for _, v := range []bool{false, true} {
		fullLex[v] = drive.Lex(bytes.NewReader(data), drive.LexOpts{Validate: v, ComputeAttCRC: true})
		if fullLex[v].Panic != nil || !drive.CleanEOF(fullLex[v].Err) {
			rep.Inconclusive(fmt.Sprintf("complete file of c09 case %d does not lex cleanly (C01's territory): %v", i, fullLex[v].Err))
			return
		}
		if len(fullLex[v].Outs) != cum[len(cum)-1] {
			rep.Inconclusive(fmt.Sprintf("c09 case %d: harness record accounting off (%d outputs vs %d expected)", i, len(fullLex[v].Outs), cum[len(cum)-1]))
			return
		}
	}
	fullIter := drive.ReadMessages(bytes.NewReader(data), drive.IterOpts{Opts: []mcap.ReadOpt{mcap.UsingIndex(false)}})
	if fullIter.Failed() != nil {
		rep.Inconclusive("complete file does not iterate cleanly (C01's territory)")
		return
	}
	fullKeys := tripleKeys(fullIter.Triples)
	cuts := cutsFor(f, len(data), ctx.Seed+int64(i))
	if len(cuts) < len(data) && stripe == 0 {
		rep.Count("big_files", 1)
		rep.Count("big_file_cuts_enumerated", int64(len(cuts)))
	}
	for ci := stripe; ci < len(cuts); ci += c09Stripes {
		n := cuts[ci]
		prefix := data[:n]
		rep.Eval(3)
		for _, v := range []bool{false, true} {
			lr := drive.Lex(bytes.NewReader(prefix), drive.LexOpts{Validate: v, ComputeAttCRC: true})
			rep.Count("prefix_reads_lexer", 1)
			what := fmt.Sprintf("%s cut at byte %d of %d, lexer(validate=%v)", c.Describe(), n, len(data), v)
			if lr.Panic != nil {
				rep.Violate("panic", what+": "+lr.Panic.Error(), witness)
				return
			}
			if lr.Err == nil {
				rep.Violate("no-terminal", what+": lexer stopped without an outcome", witness)
				return
			}
			if p := outsPrefix(fullLex[v].Outs, lr.Outs); p != "" {
				rep.Violate("not-a-prefix", what+": "+p, witness)
				return
			}
			if req := requiredAt(ends, cum, n); len(lr.Outs) < req {
				rep.Violate("complete-records-missing", fmt.Sprintf("%s: %d records returned, but the records completely written before the cut hold %d (terminal %v)", what, len(lr.Outs), req, lr.Err), witness)
				return
			}
			if drive.CleanEOF(lr.Err) {
				rep.Count("prefix_reads_ending_in_clean_eof", 1)
			} else {
				rep.Count("prefix_reads_ending_in_error", 1)
			}
			if len(lr.Outs) > 0 && lr.Outs[len(lr.Outs)-1].AttReadErr != nil {
				rep.Count("attachments_surfaced_with_partial_data", 1)
			}
		}
		ir := drive.ReadMessages(bytes.NewReader(prefix), drive.IterOpts{Opts: []mcap.ReadOpt{mcap.UsingIndex(false)}})
		rep.Count("prefix_reads_iterator", 1)
		what := fmt.Sprintf("%s cut at byte %d of %d, Messages(UsingIndex(false))", c.Describe(), n, len(data))
		if ir.Panic != nil {
			rep.Violate("panic", what+": "+ir.Panic.Error(), witness)
			return
		}
		got := tripleKeys(ir.Triples)
		if len(got) > len(fullKeys) || !eqStrings(got, fullKeys[:len(got)]) {
			rep.Violate("not-a-prefix", what+": messages returned are not a prefix of the original sequence: "+firstDiff(fullKeys, got), witness)
			return
		}
		if req := requiredAt(mends, mcum, n); len(got) < req {
			rep.Violate("complete-chunk-messages-missing", fmt.Sprintf("%s: %d messages returned, completely written records hold %d (outcome open=%v err=%v)", what, len(got), req, ir.OpenErr, ir.Err), witness)
			return
		}
	}
	if (i%6 == 0 || i == 1_000_000) && stripe == 0 {
		rep.Sample(map[string]any{"case": i, "shape": c.Shape.String(), "config": c.K.String(), "file_bytes": len(data), "cuts": len(cuts), "chunks": len(f.Chunks())})
	}
}

func RunC09(ctx *core.Ctx, rep *core.Report) {
	rep.Level = "fault_enumeration"
	rep.Rule = "small files (about 1-6 KiB; none/zstd/lz4 chunked and unchunked in rotation; attachments, metadata, several chunks) written by the real Writer; for each file EVERY cut position 0..len-1 is read by the lexer (attachment callback reading the data; chunk CRC validation off and on) and by Messages(UsingIndex(false)). " +
		"Additionally files of 1-2 MiB holding a record above 1 MiB and chunks above 64 KiB (thresholds of buffered and chunked read paths) are cut at every position within 64 bytes after each record boundary / chunk payload start (inner record boundaries too for uncompressed chunks) plus 400 seeded positions. " +
		"Oracle: output is a prefix of the same reader's output on the complete file (last element may be an attachment with a proper prefix of its data), outcome is EOF or an error, no panic, and every record/message of every top-level record completely inside the prefix is returned (offsets from the reference decoder). " +
		"distinct_nontrivial counts distinct files enumerated."
	rep.Assumptions = []string{"record boundaries come from the reference decoder"}
	n := ctx.Pick(24, 600)
	nb := ctx.Pick(8, 120)
	core.Parallel(ctx, rep, (n+nb)*c09Stripes, func(k int) {
		i := k / c09Stripes
		if i >= n {
			i = 1_000_000 + i - n
		}
		checkC09Job(ctx, i, k%c09Stripes, rep)
	})
}
