package mon

import (
	"bytes"
	"fmt"
	"io"
	"math/rand"
	"sort"

	"github.com/foxglove/mcap/go/mcap"

	"verifharness/core"
	"verifharness/drive"
	"verifharness/gen"
	"verifharness/refmcap"
)

// projectReaders renders everything the Go readers report for a file as a list of strings that do not
// depend on byte offsets, lengths or checksums: index entries are replaced by the content they lead to.
// Records with unknown opcodes never appear in reader output, so two files that differ only by such
// records and by trailing bytes must project identically.
func projectReaders(data []byte) []string {
	var out []string
	add := func(format string, a ...any) { out = append(out, fmt.Sprintf(format, a...)) }
	for _, validate := range []bool{false, true} {
		lr := drive.Lex(bytes.NewReader(data), drive.LexOpts{Validate: validate, ComputeAttCRC: true})
		add("lexer(validate=%v) terminal: eof=%v panic=%v", validate, lr.Err == io.EOF, lr.Panic != nil) //nolint:errorlint
		if lr.Err != io.EOF {                                                                            //nolint:errorlint
			add("lexer error: %v", lr.Err)
		}
		for _, o := range lr.Outs {
			switch o.Op {
			case refmcap.OpHeader, refmcap.OpSchema, refmcap.OpChannel, refmcap.OpMessage, refmcap.OpMetadata:
				add("lex %q", o.Canon)
			case refmcap.OpAttachment:
				add("lex %q crc_ok=%v", o.Canon, o.CRCErr == nil && o.ParsedCRC == o.ComputedCRC)
			case refmcap.OpDataEnd:
				add("lex dataend")
			case refmcap.OpFooter:
				// the footer holds only offsets and a CRC; whether the summary is non-empty legitimately
				// changes when an unknown record is the summary's only content, so nothing of it is projected
				if _, err := mcap.ParseFooter([]byte(o.Canon[1:])); err != nil {
					add("lex footer unparsable: %v", err)
				} else {
					add("lex footer")
				}
			case refmcap.OpStatistics:
				st, err := mcap.ParseStatistics([]byte(o.Canon[1:]))
				if err != nil {
					add("lex statistics unparsable: %v", err)
				} else {
					add("lex statistics %s", statsString(st))
				}
			case refmcap.OpChunkIndex:
				ci, err := mcap.ParseChunkIndex([]byte(o.Canon[1:]))
				if err != nil {
					add("lex chunkindex unparsable: %v", err)
				} else {
					add("lex chunkindex [%d,%d] %q channels=%v", ci.MessageStartTime, ci.MessageEndTime, ci.Compression, sortedIDs(ci.MessageIndexOffsets))
				}
			case refmcap.OpMessageIndex:
				mi, err := mcap.ParseMessageIndex([]byte(o.Canon[1:]))
				if err != nil {
					add("lex messageindex unparsable: %v", err)
				} else {
					ts := make([]uint64, 0, len(mi.Entries()))
					for _, e := range mi.Entries() {
						ts = append(ts, e.Timestamp)
					}
					add("lex messageindex ch=%d times=%v", mi.ChannelID, ts)
				}
			case refmcap.OpAttachmentIndex:
				ai, err := mcap.ParseAttachmentIndex([]byte(o.Canon[1:]))
				if err != nil {
					add("lex attachmentindex unparsable: %v", err)
				} else {
					add("lex attachmentindex %d %d %d %q %q", ai.LogTime, ai.CreateTime, ai.DataSize, ai.Name, ai.MediaType)
				}
			case refmcap.OpMetadataIndex:
				mi, err := mcap.ParseMetadataIndex([]byte(o.Canon[1:]))
				if err != nil {
					add("lex metadataindex unparsable: %v", err)
				} else {
					add("lex metadataindex %q", mi.Name)
				}
			case refmcap.OpSummaryOffset:
				so, err := mcap.ParseSummaryOffset([]byte(o.Canon[1:]))
				if err != nil {
					add("lex summaryoffset unparsable: %v", err)
				} else if so.GroupOpcode >= 1 && so.GroupOpcode <= 0x0f {
					add("lex summaryoffset for %d", so.GroupOpcode)
				}
			default:
				add("lex op %d", o.Op)
			}
		}
	}
	modes := []struct {
		name string
		opts []mcap.ReadOpt
	}{{"scan", []mcap.ReadOpt{mcap.UsingIndex(false)}}, {"default", nil}, {"logtime", []mcap.ReadOpt{mcap.InOrder(mcap.LogTimeOrder)}}, {"reverse", []mcap.ReadOpt{mcap.InOrder(mcap.ReverseLogTimeOrder)}}}
	for _, m := range modes {
		ir := drive.ReadMessages(bytes.NewReader(data), drive.IterOpts{Opts: m.opts, MetadataCB: true})
		add("iter %s: openErr=%v err=%v panic=%v n=%d", m.name, ir.OpenErr, ir.Err, ir.Panic != nil, len(ir.Triples))
		for _, t := range ir.Triples {
			add("iter %s %q", m.name, t.Key())
		}
		for _, md := range ir.Metadata {
			add("iter %s metadata %q", m.name, md)
		}
	}
	p := core.Safe(func() {
		r, err := mcap.NewReader(bytes.NewReader(data))
		if err != nil {
			add("NewReader error %v", err)
			return
		}
		defer r.Close()
		add("reader header %q %q", r.Header().Profile, r.Header().Library)
		info, err := r.Info()
		if err != nil {
			add("Info error %v", err)
			return
		}
		if info.Statistics != nil {
			add("info statistics %s", statsString(info.Statistics))
		} else {
			add("info statistics nil")
		}
		var ss, cs []string
		for _, s := range info.Schemas {
			ss = append(ss, drive.CanonSchema(s))
		}
		for _, c := range info.Channels {
			cs = append(cs, drive.CanonChannel(c))
		}
		sort.Strings(ss)
		sort.Strings(cs)
		add("info schemas %q", ss)
		add("info channels %q", cs)
		add("info canReadUsingIndex=%v", info.CanReadMessagesUsingIndex())
		for _, ci := range info.ChunkIndexes {
			add("info chunkindex [%d,%d] %q channels=%v", ci.MessageStartTime, ci.MessageEndTime, ci.Compression, sortedIDs(ci.MessageIndexOffsets))
		}
		for _, ai := range info.AttachmentIndexes {
			ar, err := r.GetAttachmentReader(ai.Offset)
			if err != nil {
				add("info attachment -> error %v", err)
				continue
			}
			d, err := io.ReadAll(ar.Data())
			pc, e1 := ar.ParsedCRC()
			cc, e2 := ar.ComputedCRC()
			add("info attachment %d %d %d %q %q -> %d %d %q %q %x readErr=%v crc_ok=%v", ai.LogTime, ai.CreateTime, ai.DataSize, ai.Name, ai.MediaType,
				ar.LogTime, ar.CreateTime, ar.Name, ar.MediaType, d, err, e1 == nil && e2 == nil && pc == cc)
		}
		for _, mi := range info.MetadataIndexes {
			md, err := r.GetMetadata(mi.Offset)
			if err != nil {
				add("info metadata %q -> error %v", mi.Name, err)
				continue
			}
			add("info metadata %q -> %q", mi.Name, drive.CanonMetadata(md))
		}
	})
	if p != nil {
		add("Info/random access panic: %v", p.Value)
	}
	return out
}

func statsString(s *mcap.Statistics) string {
	ids := make([]int, 0, len(s.ChannelMessageCounts))
	for id := range s.ChannelMessageCounts {
		ids = append(ids, int(id))
	}
	sort.Ints(ids)
	cm := ""
	for _, id := range ids {
		cm += fmt.Sprintf("%d:%d ", id, s.ChannelMessageCounts[uint16(id)])
	}
	return fmt.Sprintf("msgs=%d schemas=%d channels=%d att=%d md=%d chunks=%d [%d,%d] {%s}", s.MessageCount, s.SchemaCount, s.ChannelCount, s.AttachmentCount, s.MetadataCount, s.ChunkCount, s.MessageStartTime, s.MessageEndTime, cm)
}

func sortedIDs(m map[uint16]uint64) []int {
	out := make([]int, 0, len(m))
	for id := range m {
		out = append(out, int(id))
	}
	sort.Ints(out)
	return out
}

// ---- mutation of a plan: unknown records and trailing bytes

func randUnknown(r *rand.Rand) *refmcap.UnknownRec {
	var op byte
	if r.Intn(2) == 0 {
		op = byte(0x10 + r.Intn(0x70)) // unassigned
	} else {
		op = byte(0x80 + r.Intn(0x80)) // private
	}
	n := []int{0, 0, 1, 8, 9, 17, 300}[r.Intn(7)]
	if r.Intn(3) == 0 {
		n = r.Intn(301)
	}
	if r.Intn(40) == 0 {
		n = 64<<10 + 1 + r.Intn(140<<10) // above the 64 KiB thresholds of buffered read paths
	}
	b := make([]byte, n)
	r.Read(b)
	if n >= 9 && r.Intn(3) == 0 {
		// make the content look like a nested record prefix of a known opcode
		b[0] = byte(1 + r.Intn(15))
	}
	return &refmcap.UnknownRec{Op: op, Body: b}
}

func randTrail(r *rand.Rand) []byte {
	switch r.Intn(4) {
	case 0:
		return nil
	case 1:
		return []byte{1, 0xff, 0xff} // the conformance 'pad' pattern
	}
	b := make([]byte, 1+r.Intn(64))
	r.Read(b)
	return b
}

type mutationStats struct {
	unknownTop, unknownInChunk, unknownSummary, trailed int
}

// mutatePlan returns a deep-enough copy of p with unknown-opcode records inserted and trailing bytes
// appended to extensible records. The logical content is unchanged.
func mutatePlan(p *refmcap.Plan, r *rand.Rand) (*refmcap.Plan, mutationStats) {
	var ms mutationStats
	q := *p
	q.Data = nil
	q.Summary = nil
	if r.Intn(2) == 0 {
		q.HeaderTrail = randTrail(r)
		if q.HeaderTrail != nil {
			ms.trailed++
		}
	}
	q.SummaryOffsetTrail = randTrail(r)
	trailItem := func(it refmcap.Item) refmcap.Item {
		if it.Message == nil && it.Unknown == nil && r.Intn(2) == 0 {
			it.Trailing = randTrail(r)
			if it.Trailing != nil {
				ms.trailed++
			}
		}
		return it
	}
	maybeTop := func() {
		for r.Intn(3) == 0 {
			q.Data = append(q.Data, refmcap.Elem{Item: &refmcap.Item{Unknown: randUnknown(r)}})
			ms.unknownTop++
		}
	}
	for _, e := range p.Data {
		maybeTop()
		if e.Item != nil {
			it := trailItem(*e.Item)
			q.Data = append(q.Data, refmcap.Elem{Item: &it})
			continue
		}
		cp := *e.Chunk
		cp.Items = nil
		for _, it := range e.Chunk.Items {
			for r.Intn(4) == 0 {
				cp.Items = append(cp.Items, refmcap.Item{Unknown: randUnknown(r)})
				ms.unknownInChunk++
			}
			cp.Items = append(cp.Items, trailItem(it))
		}
		if r.Intn(4) == 0 {
			cp.Items = append(cp.Items, refmcap.Item{Unknown: randUnknown(r)})
			ms.unknownInChunk++
		}
		if r.Intn(2) == 0 {
			cp.MidxTrail = randTrail(r)
		}
		q.Data = append(q.Data, refmcap.Elem{Chunk: &cp})
	}
	maybeTop()
	usedOps := map[byte]bool{}
	unknownGroup := func() {
		for r.Intn(3) == 0 {
			u := randUnknown(r)
			if usedOps[u.Op] {
				continue
			}
			usedOps[u.Op] = true
			g := refmcap.SummaryGroup{Op: u.Op, Unknown: []*refmcap.UnknownRec{u}}
			for r.Intn(2) == 0 {
				v := randUnknown(r)
				v.Op = u.Op
				g.Unknown = append(g.Unknown, v)
			}
			ms.unknownSummary += len(g.Unknown)
			q.Summary = append(q.Summary, g)
		}
	}
	for _, g := range p.Summary {
		unknownGroup()
		g := g
		if r.Intn(2) == 0 {
			seed := r.Int63()
			g.TrailFn = func(i int) []byte { return randTrail(rand.New(rand.NewSource(seed + int64(i)))) }
			ms.trailed++
		}
		q.Summary = append(q.Summary, g)
	}
	unknownGroup()
	return &q, ms
}

func c11Case(ctx *core.Ctx, i int) (*Case, Layout) {
	c := c12Content(ctx, 100_000+i)
	r := gen.Rng(ctx.Seed, "c11l", i)
	_, _, nm, _, _ := c.W.Counts()
	l := RandLayout(r, nm, i%3 != 0)
	return c, l
}

func checkC11Case(ctx *core.Ctx, i int, rep *core.Report) {
	c, l := c11Case(ctx, i)
	witness := c.Witness()
	witness["c11_case"] = i
	plan := BuildPlan(c.W, l)
	base, err := refmcap.Encode(plan)
	if err != nil {
		rep.Inconclusive("reference encoder failed: " + err.Error())
		return
	}
	r := gen.Rng(ctx.Seed, "c11m", i)
	mplan, ms := mutatePlan(plan, r)
	mut, err := refmcap.Encode(mplan)
	if err != nil {
		rep.Inconclusive("reference encoder failed on the mutated plan: " + err.Error())
		return
	}
	// both files must be spec-valid (the mutated one with unknown opcodes tolerated)
	for k, b := range [][]byte{base.Bytes, mut.Bytes} {
		f, err := refmcap.Decode(b, &refmcap.DecodeOptions{Custom: drive.RefCustom})
		if err == nil {
			if probs := refmcap.Validate(f, refmcap.Expect{AllowUnknown: true}); len(probs) > 0 {
				err = fmt.Errorf("%v", probs[0])
			}
		}
		if err != nil {
			rep.Inconclusive(fmt.Sprintf("c11 case %d file %d is not spec-valid: %v", i, k, err))
			return
		}
	}
	rep.Count("unknown_records_top_level", int64(ms.unknownTop))
	rep.Count("unknown_records_in_chunks", int64(ms.unknownInChunk))
	rep.Count("unknown_records_in_summary", int64(ms.unknownSummary))
	rep.Count("records_or_groups_with_trailing_bytes", int64(ms.trailed))
	if ms.unknownTop+ms.unknownInChunk+ms.unknownSummary+ms.trailed > 0 {
		rep.Distinct(i, c.Shape.String(), l.String())
	}
	a := projectReaders(base.Bytes)
	b := projectReaders(mut.Bytes)
	rep.Count("projected_observations_compared", int64(len(a)))
	if d := firstDiffPlain(a, b); d != "" {
		rep.Violate("projection-differs", fmt.Sprintf("c11 case %d (%s layout{%s}; %d/%d/%d unknown records top/chunk/summary, %d trailed): %s", i, c.Describe(), l, ms.unknownTop, ms.unknownInChunk, ms.unknownSummary, ms.trailed, d), witness)
		return
	}
	if i%80 == 0 {
		rep.Sample(map[string]any{"case": i, "content": c.Shape.String(), "layout": l.String(), "unknown_top": ms.unknownTop, "unknown_in_chunk": ms.unknownInChunk, "unknown_summary": ms.unknownSummary,
			"trailed": ms.trailed, "base_bytes": len(base.Bytes), "mutated_bytes": len(mut.Bytes), "observations": len(a)})
	}
}

func firstDiffPlain(a, b []string) string {
	n := len(a)
	if len(b) < n {
		n = len(b)
	}
	clip := func(s string) string {
		if len(s) > 240 {
			return s[:240] + "…"
		}
		return s
	}
	for i := 0; i < n; i++ {
		if a[i] != b[i] {
			return fmt.Sprintf("observation %d: original file gives %s; file with unknown records/trailing bytes gives %s", i, clip(a[i]), clip(b[i]))
		}
	}
	if len(a) != len(b) {
		return fmt.Sprintf("%d observations on the original, %d on the mutated file", len(a), len(b))
	}
	return ""
}

func RunC11(ctx *core.Ctx, rep *core.Report) {
	rep.Rule = "random contents laid out by the reference encoder (random legal layouts), then re-encoded with records of unknown opcodes (0x10-0x7F and 0x80-0xFF, lengths 0..300, one in forty 64-200 KiB) inserted at top level of the data section, inside chunks and as their own summary groups, and 1..64 trailing bytes (incl. the conformance pad pattern 01 ff ff) appended to header, schema, channel, attachment, metadata, message index, chunk index, attachment index, metadata index, statistics and summary offset records; all offsets, lengths and CRCs recomputed. " +
		"Oracle: the offset-free projection of everything the Go readers report (lexer stream with validation on/off, scan, index-based reads in three orders, metadata callbacks, Info, attachment/metadata random access) is identical for both files. The 208 padded conformance vectors are covered by C17. " +
		"distinct_nontrivial counts file pairs that differ by at least one unknown record or trailing byte."
	rep.Assumptions = []string{"both files verified spec-valid by the reference validator", "unknown records are never placed between a chunk and its message index records"}
	n := ctx.Pick(400, 40000)
	core.Parallel(ctx, rep, n, func(i int) {
		rep.Eval(1)
		checkC11Case(ctx, i, rep)
	})
}
