package mon

import (
	"bytes"
	"fmt"
	"io"

	"verifharness/core"
	"verifharness/drive"
	"verifharness/gen"
	"verifharness/iofault"
	"verifharness/refmcap"
)

func c14Case(ctx *core.Ctx, i int) *Case {
	r := gen.Rng(ctx.Seed, "c14", i)
	c := &Case{Index: i, Seed: ctx.Seed}
	c.Shape = gen.Shape{Schemas: 1 + r.Intn(3), Channels: 1 + r.Intn(4), Messages: 3 + r.Intn(25), Attachments: r.Intn(3), Metadata: r.Intn(3), MaxPayload: 80, MaxLongStr: 40,
		ManyMapKeys: 3, TimeMode: []string{"asc", "smallrand", "ties", "desc", "boundary"}[r.Intn(5)], Rewrites: r.Intn(3) == 0, BigPayloads: false}
	c.W = gen.RandWorkload(r, c.Shape)
	c.K = gen.RandConfig(r)
	if c.K.Chunked && c.K.ChunkSize > 4096 && r.Intn(3) != 0 {
		c.K.ChunkSize = []int64{1, 50, 200, 1024}[r.Intn(4)]
	}
	if c.K.Compression == "zstd" && c.K.Level >= 2 {
		c.K.Level = r.Intn(2) // cost bound, see MakeCase
	}
	// one case in ten has chunks whose compressed form exceeds 64 KiB (incompressible 40 KB payloads,
	// 200 KB chunk size) and one record above 1 MiB: size thresholds in the write path
	if i%10 == 3 {
		c.K.Chunked = true
		c.K.ChunkSize = 200 << 10
		n := 0
		for k := range c.W.Ops {
			if m := c.W.Ops[k].Message; m != nil && n < 12 {
				m.Data = make([]byte, 40000+r.Intn(2000))
				r.Read(m.Data)
				if n == 5 {
					m.Data = make([]byte, 1<<20+5000)
					r.Read(m.Data)
				}
				n++
			}
		}
	}
	// one case in eight carries a payload larger than the bufio/io.Copy block sizes
	if i%8 == 0 {
		for k := range c.W.Ops {
			if a := c.W.Ops[k].Attachment; a != nil {
				a.Data = bytes.Repeat([]byte{byte(i)}, 70000)
				break
			}
		}
	}
	return c
}

func checkC14Case(ctx *core.Ctx, i int, rep *core.Report) {
	c := c14Case(ctx, i)
	witness := c.Witness()
	witness["c14_case"] = i
	golden := writeClean(c, rep)
	if golden == nil {
		return
	}
	F := golden.Bytes()
	nWrites := len(golden.Sink.Writes)
	rep.Distinct(c.Shape.String(), c.K.String())
	rep.Count("golden_runs", 1)
	rep.Count("sink_writes_enumerated", int64(nWrites))
	if i%5 == 0 {
		rep.Sample(map[string]any{"case": i, "shape": c.Shape.String(), "config": c.K.String(), "sink_writes": nWrites, "api_calls": len(golden.Calls), "file_bytes": len(F)})
	}
	for k := 0; k < nWrites; k++ {
		for _, mode := range []string{"no bytes + error", "short count + io.ErrShortWrite", "all bytes + error", "short count + nil error"} {
			for _, sticky := range []bool{false, true} {
				sink := drive.NewSink()
				sink.FailAt, sink.Sticky = k, sticky
				sink.Short = mode == "short count + io.ErrShortWrite"
				sink.Full = mode == "all bytes + error"
				sink.ShortNil = mode == "short count + nil error"
				sink.Record = false
				res := drive.RunWriter(c.W, c.K, sink, &drive.WriteOpts{StopOnError: true})
				rep.Eval(1)
				what := fmt.Sprintf("%s: sink write #%d of %d fails (%s, permanently=%v)", c.Describe(), k, nWrites, mode, sticky)
				if !sink.Fired {
					rep.Violate("fault-not-reached", what+": the faulty execution performed fewer sink writes than the golden run (non-deterministic write pattern?)", witness)
					return
				}
				rep.Count("faults_fired", 1)
				if sink.FiredCall == -1 {
					if res.NewErr == nil {
						rep.Violate("error-swallowed", what+": NewWriter returned nil although its write failed", witness)
						return
					}
					if _, isPanic := res.NewErr.(*core.PanicError); isPanic {
						rep.Violate("panic", what+": NewWriter panicked: "+res.NewErr.Error(), witness)
						return
					}
					continue
				}
				for ci, call := range res.Calls {
					if call.Panic != nil {
						rep.Violate("panic", fmt.Sprintf("%s: call #%d %s panicked: %v", what, ci, call.Kind, call.Panic), witness)
						return
					}
				}
				if sink.FiredCall >= len(res.Calls) {
					rep.Violate("harness", what+": fired call index out of range", witness)
					return
				}
				hit := res.Calls[sink.FiredCall]
				core.NotePattern(rep, "calls_hit_by_fault", hit.Kind)
				if hit.Err == nil {
					rep.Violate("error-swallowed", fmt.Sprintf("%s: the failing write happened during call #%d (%s), which returned nil", what, sink.FiredCall, hit.Kind), witness)
					return
				}
				// bytes accepted up to the return of the failing call are a prefix of the fault-free output
				acc := sink.Buf.Bytes()
				if hit.SinkLen <= len(acc) {
					acc = acc[:hit.SinkLen]
				}
				if len(acc) > len(F) || !bytes.Equal(acc, F[:len(acc)]) {
					rep.Violate("accepted-bytes-not-a-prefix", fmt.Sprintf("%s: the %d bytes accepted by the sink when call #%d (%s) returned are not a prefix of the fault-free output", what, len(acc), sink.FiredCall, hit.Kind), witness)
					return
				}
			}
		}
	}
	// attachment sources
	for opIdx := range c.W.Ops {
		a := c.W.Ops[opIdx].Attachment
		if a == nil {
			continue
		}
		size := len(a.Data)
		type variant struct {
			name string
			src  func() (io.Reader, uint64)
		}
		var vs []variant
		step := 1
		if size > 600 {
			step = size / 200
		}
		js := []int{size} // j == size: every declared byte is delivered, then an error instead of io.EOF
		for j := 0; j < size; j += step {
			js = append(js, j)
		}
		for ji, j := range js { // a source that fails after j bytes
			j := j
			vs = append(vs, variant{fmt.Sprintf("source fails after %d of %d bytes", j, size), func() (io.Reader, uint64) {
				return &iofault.FailingReader{Data: a.Data, N: j}, uint64(size)
			}})
			// the same with the errors a real source produces when its own input ends early, and with the
			// error arriving together with the last bytes (all legal for an io.Reader); for j == size
			// always, otherwise for every fourth position
			if j == size || ji%4 == 1 {
				for _, e := range []error{io.ErrUnexpectedEOF, io.ErrClosedPipe, fmt.Errorf("wrapped: %w", io.ErrUnexpectedEOF)} {
					for _, withData := range []bool{false, true} {
						e, withData := e, withData
						vs = append(vs, variant{fmt.Sprintf("source fails after %d of %d bytes with %q (error together with the last bytes: %v)", j, size, e.Error(), withData), func() (io.Reader, uint64) {
							return &iofault.FailingReader{Data: a.Data, N: j, Err: e, WithData: withData}, uint64(size)
						}})
					}
				}
			}
		}
		for d := 1; d <= size; d += step {
			d := d
			vs = append(vs, variant{fmt.Sprintf("source ends %d bytes early", d), func() (io.Reader, uint64) { return bytes.NewReader(a.Data[:size-d]), uint64(size) }})
		}
		for _, extra := range []int{1, 2, 7, 64} {
			extra := extra
			vs = append(vs, variant{fmt.Sprintf("source delivers %d bytes too many", extra), func() (io.Reader, uint64) {
				return bytes.NewReader(append(append([]byte(nil), a.Data...), make([]byte, extra)...)), uint64(size)
			}})
		}
		for _, v := range vs {
			sink := drive.NewSink()
			sink.Record = false
			target := a
			res := drive.RunWriter(c.W, c.K, sink, &drive.WriteOpts{StopOnError: true, AttachmentSrc: func(x *refmcap.Attachment) (io.Reader, uint64) {
				if x == target {
					return v.src()
				}
				return bytes.NewReader(x.Data), uint64(len(x.Data))
			}})
			rep.Eval(1)
			rep.Count("attachment_source_faults", 1)
			var call *drive.Call
			for ci := range res.Calls {
				if res.Calls[ci].Op == opIdx && res.Calls[ci].Kind == "attachment" {
					call = &res.Calls[ci]
				}
				if res.Calls[ci].Panic != nil {
					rep.Violate("panic", fmt.Sprintf("%s: attachment op %d, %s: call %s panicked: %v", c.Describe(), opIdx, v.name, res.Calls[ci].Kind, res.Calls[ci].Panic), witness)
					return
				}
			}
			if call == nil {
				rep.Violate("harness", fmt.Sprintf("%s: attachment call for op %d not reached", c.Describe(), opIdx), witness)
				return
			}
			if call.Err == nil {
				rep.Violate("attachment-source-error-swallowed", fmt.Sprintf("%s: attachment op %d (%d bytes declared), %s: WriteAttachment returned nil", c.Describe(), opIdx, size, v.name), witness)
				return
			}
		}
	}
}

func RunC14(ctx *core.Ctx, rep *core.Report) {
	rep.Level = "fault_enumeration"
	rep.Rule = "seeded (workload, configuration) pairs; a golden run records every Write the Writer performs on its destination; then EVERY write index k is failed in eight ways (0 bytes + error, short count + io.ErrShortWrite, all bytes accepted + error, short count + nil error) x (only write k, k and all later writes). " +
		"Oracle: the API call executing when the fault fired returns a non-nil error (NewWriter for the magic), no call panics (the driver stops issuing workload calls at the first error and calls Close once), and the bytes accepted when that call returned are a prefix of the golden output. " +
		"Every attachment is additionally written from sources that fail after j bytes (every j, or 200 evenly spaced for large ones, j = size included; with a private error and - at j = size and every fourth j - with io.ErrUnexpectedEOF, a wrapped one and io.ErrClosedPipe, alone or together with the last bytes), end 1..size bytes early, or deliver 1/2/7/64 bytes too many: WriteAttachment must return an error. distinct_nontrivial counts distinct (shape, configuration) pairs enumerated."
	rep.Assumptions = []string{"sinks honour the io.Writer contract (a short write is accompanied by a non-nil error)", "the writer's sequence of sink writes is deterministic (checked: every fault index of the golden run is reached)"}
	n := ctx.Pick(120, 4000)
	core.Parallel(ctx, rep, n, func(i int) { checkC14Case(ctx, i, rep) })
}
