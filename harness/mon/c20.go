package mon

import (
	"bytes"
	"encoding/binary"
	"errors"
	"fmt"
	"hash/crc32"
	"io"
	"os"
	"path/filepath"
	"runtime"

	"github.com/foxglove/mcap/go/mcap"

	"verifharness/core"
	"verifharness/drive"
	"verifharness/gen"
	"verifharness/refmcap"
)

// ---- files with controlled overlap of chunk time ranges

type c20File struct {
	i        int
	k        gen.Config
	nChunks  int
	depth    int // target overlap depth
	perChunk int
	payload  int
	data     []byte
	// measured from the reference decoder
	measuredDepth int
	maxChunk      int // largest uncompressed chunk
	maxChunkRec   int // largest chunk record
	messages      int
}

func c20MakeFile(ctx *core.Ctx, i int) (*c20File, error) {
	r := gen.Rng(ctx.Seed, "c20", i)
	f := &c20File{i: i, depth: 1 + r.Intn(8), nChunks: 10 + r.Intn(ctx.Pick(90, 990)), perChunk: 2 + r.Intn(8), payload: 20 + r.Intn(400)}
	if f.nChunks*f.perChunk > 12000 {
		f.perChunk = 2
	}
	f.k = gen.Config{Chunked: true, Compression: []string{"", "zstd", "lz4"}[i%3], IncludeCRC: r.Intn(2) == 0, SkipMessageIndexing: r.Intn(4) == 0}
	rec := 31 + f.payload
	f.k.ChunkSize = int64(f.perChunk*rec - 1)
	sink := drive.NewSink()
	sink.Record = false
	w, err := mcap.NewWriter(sink, drive.Options(f.k))
	if err != nil {
		return nil, err
	}
	if err := w.WriteHeader(&mcap.Header{Profile: "c20"}); err != nil {
		return nil, err
	}
	if err := w.WriteSchema(&mcap.Schema{ID: 1, Name: "s", Encoding: "e", Data: []byte("d")}); err != nil {
		return nil, err
	}
	for ch := uint16(1); ch <= 3; ch++ {
		if err := w.WriteChannel(&mcap.Channel{ID: ch, SchemaID: 1, Topic: fmt.Sprintf("t%d", ch), MessageEncoding: "x"}); err != nil {
			return nil, err
		}
	}
	// chunk c covers [c*step, c*step + depth*step): consecutive chunks overlap about `depth` deep
	const step = 1000
	payload := make([]byte, f.payload)
	n := f.nChunks * f.perChunk
	for j := 0; j < n; j++ {
		c := j / f.perChunk
		span := uint64(f.depth*step - 1)
		t := uint64(c*step) + uint64(j%f.perChunk)*span/uint64(f.perChunk-1+1)
		if j%f.perChunk == f.perChunk-1 {
			t = uint64(c*step) + span
		}
		r.Read(payload)
		if err := w.WriteMessage(&mcap.Message{ChannelID: uint16(1 + j%3), Sequence: uint32(j), LogTime: t, PublishTime: t, Data: payload}); err != nil {
			return nil, err
		}
	}
	if err := w.Close(); err != nil {
		return nil, err
	}
	f.data = sink.Buf.Bytes()
	f.messages = n
	rf, err := refmcap.Decode(f.data, nil)
	if err != nil {
		return nil, err
	}
	type ev struct {
		t    uint64
		open bool
	}
	var starts, ends []uint64
	for _, cr := range rf.Chunks() {
		ch := cr.Parsed.(*refmcap.Chunk)
		if len(ch.Uncompressed) > f.maxChunk {
			f.maxChunk = len(ch.Uncompressed)
		}
		if cr.Len > f.maxChunkRec {
			f.maxChunkRec = cr.Len
		}
		starts = append(starts, ch.MessageStartTime)
		ends = append(ends, ch.MessageEndTime)
	}
	// maximum number of closed intervals containing a common point
	for i := range starts {
		d := 0
		for j := range starts {
			if starts[j] <= starts[i] && starts[i] <= ends[j] {
				d++
			}
		}
		if d > f.measuredDepth {
			f.measuredDepth = d
		}
	}
	return f, nil
}

func checkC20Indexed(ctx *core.Ctx, i int, rep *core.Report) {
	f, err := c20MakeFile(ctx, i)
	if err != nil {
		rep.Inconclusive(fmt.Sprintf("c20 file %d: %v", i, err))
		return
	}
	witness := map[string]any{"c20_file": i, "config": f.k.String(), "chunks": f.nChunks, "target_depth": f.depth}
	rep.Distinct("indexed", i)
	rep.Count("indexed_files", 1)
	core.NotePattern(rep, "measured_overlap_depths", fmt.Sprint(f.measuredDepth))
	type variant struct {
		name  string
		opts  []mcap.ReadOpt
		order mcap.ReadOrder
	}
	vs := []variant{
		{"file order", []mcap.ReadOpt{mcap.UsingIndex(true)}, mcap.FileOrder},
		{"log-time order", []mcap.ReadOpt{mcap.InOrder(mcap.LogTimeOrder)}, mcap.LogTimeOrder},
		{"reverse log-time order", []mcap.ReadOpt{mcap.InOrder(mcap.ReverseLogTimeOrder)}, mcap.ReverseLogTimeOrder},
		{"log-time order, topic t2", []mcap.ReadOpt{mcap.InOrder(mcap.LogTimeOrder), mcap.WithTopics([]string{"t2"})}, mcap.LogTimeOrder},
		{"reverse order, window", []mcap.ReadOpt{mcap.InOrder(mcap.ReverseLogTimeOrder), mcap.AfterNanos(2500), mcap.BeforeNanos(uint64(f.nChunks) * 700)}, mcap.ReverseLogTimeOrder},
	}
	for _, v := range vs {
		maxSlots, maxLive, maxSlotBytes, maxRecBuf, samples := 0, 0, 0, 0, 0
		hooked := false
		ir := drive.ReadMessages(bytes.NewReader(f.data), drive.IterOpts{Opts: v.opts, Mode: drive.NextIntoReused, Sample: func(it mcap.MessageIterator, n int) {
			s, l, sb, rb, ok := mcap.VerifIteratorStats(it)
			if !ok {
				return
			}
			hooked = true
			samples++
			if s > maxSlots {
				maxSlots = s
			}
			if l > maxLive {
				maxLive = l
			}
			if sb > maxSlotBytes {
				maxSlotBytes = sb
			}
			if rb > maxRecBuf {
				maxRecBuf = rb
			}
		}})
		rep.Eval(1)
		if err := ir.Failed(); err != nil {
			rep.Violate("read-failed", fmt.Sprintf("c20 file %d (%s), %s: %v", i, f.k, v.name, err), witness)
			return
		}
		if !hooked {
			rep.Inconclusive(fmt.Sprintf("c20 file %d, %s: the iterator is not index-based, the hook was never reached", i, v.name))
			return
		}
		rep.Count("hook_samples", int64(samples))
		rep.Max("max_slots_seen", int64(maxSlots))
		limit := f.measuredDepth
		if v.order == mcap.FileOrder {
			limit = 1
		}
		desc := fmt.Sprintf("c20 file %d (%s; %d chunks of <= %d bytes, measured overlap depth %d), %s", i, f.k, f.nChunks, f.maxChunk, f.measuredDepth, v.name)
		if maxSlots > limit {
			rep.Violate("too-many-chunk-slots", fmt.Sprintf("%s: %d chunk slots allocated (at most %d chunks ever overlap; limit %d)", desc, maxSlots, f.measuredDepth, limit), witness)
			return
		}
		if maxSlotBytes > maxSlots*2*f.maxChunk+4096 {
			rep.Violate("slot-buffers-too-large", fmt.Sprintf("%s: slot buffers hold %d bytes for %d slots; largest uncompressed chunk is %d", desc, maxSlotBytes, maxSlots, f.maxChunk), witness)
			return
		}
		if maxRecBuf > f.maxChunkRec*12/10+4096 {
			rep.Violate("record-buffer-too-large", fmt.Sprintf("%s: compressed record buffer capacity %d; largest chunk record is %d", desc, maxRecBuf, f.maxChunkRec), witness)
			return
		}
	}
	if i%15 == 0 {
		rep.Sample(map[string]any{"c20_file": i, "config": f.k.String(), "chunks": f.nChunks, "messages": f.messages, "file_bytes": len(f.data), "target_depth": f.depth, "measured_depth": f.measuredDepth, "largest_chunk": f.maxChunk})
	}
}

// ---- sequential read: live heap stays near one chunk while the file is many times larger

func liveHeap() uint64 {
	runtime.GC()
	runtime.GC()
	var ms runtime.MemStats
	runtime.ReadMemStats(&ms)
	return ms.HeapAlloc
}

const c20Allowance = 32 << 20 // codec windows, pools, bufio and the harness's own constant state

func checkC20Sequential(ctx *core.Ctx, rep *core.Report, comp string, dir string) {
	// a file of ~96 MiB (thorough: ~256 MiB) in chunks of ~256 KiB, on disk so the source is not in the heap
	total := ctx.Pick(128<<20, 256<<20)
	payload := 16 << 10
	perChunk := 16
	n := total / payload
	path := filepath.Join(dir, "seq-"+comp+".mcap")
	fh, err := os.Create(path)
	if err != nil {
		rep.Inconclusive(err.Error())
		return
	}
	k := gen.Config{Chunked: true, Compression: comp, ChunkSize: int64(perChunk*(31+payload) - 1), IncludeCRC: true}
	w, err := mcap.NewWriter(fh, drive.Options(k))
	if err != nil {
		rep.Inconclusive(err.Error())
		return
	}
	_ = w.WriteHeader(&mcap.Header{})
	_ = w.WriteChannel(&mcap.Channel{ID: 1, Topic: "t", MessageEncoding: "x"})
	r := gen.Rng(ctx.Seed, "c20seq", 0)
	buf := make([]byte, payload)
	// writer side: live heap while writing stays bounded as well
	base := liveHeap()
	var maxWrite uint64
	for j := 0; j < n; j++ {
		r.Read(buf[:256]) // mostly compressible payload keeps zstd/lz4 fast; content is irrelevant here
		if err := w.WriteMessage(&mcap.Message{ChannelID: 1, Sequence: uint32(j), LogTime: uint64(j), PublishTime: uint64(j), Data: buf}); err != nil {
			rep.Violate("write-failed", err.Error(), nil)
			return
		}
		if j%(n/8) == n/16 {
			if h := liveHeap(); h > base && h-base > maxWrite {
				maxWrite = h - base
			}
		}
	}
	if err := w.Close(); err != nil {
		rep.Violate("write-failed", err.Error(), nil)
		return
	}
	fh.Close()
	defer os.Remove(path)
	st, _ := os.Stat(path)
	chunkBytes := perChunk * (31 + payload)
	bound := uint64(4*chunkBytes + c20Allowance)
	witness := map[string]any{"stage": "sequential", "compression": comp}
	rep.Count("sequential_bytes_written", int64(n*payload))
	rep.Max("max_live_heap_growth_while_writing_"+nz(comp), int64(maxWrite))
	rep.Eval(1)
	if maxWrite > bound+uint64(n/perChunk)*200 { // chunk indexes kept for the summary: ~100 bytes per chunk
		rep.Violate("writer-retains-data", fmt.Sprintf("writing %d MiB in %d KiB chunks (%s): live heap grew by %d bytes (bound %d)", n*payload>>20, chunkBytes>>10, nz(comp), maxWrite, bound), witness)
		return
	}
	type mode struct {
		name string
		run  func(src io.Reader, sample func()) (int, error)
	}
	lexRun := func(validate bool) func(io.Reader, func()) (int, error) {
		return func(src io.Reader, sample func()) (int, error) {
			l, err := mcap.NewLexer(src, &mcap.LexerOptions{ValidateChunkCRCs: validate})
			if err != nil {
				return 0, err
			}
			defer l.Close()
			var b []byte
			cnt := 0
			for {
				tt, rec, err := l.Next(b)
				if err != nil {
					if errors.Is(err, io.EOF) {
						return cnt, nil
					}
					return cnt, err
				}
				if cap(rec) > cap(b) {
					b = rec
				}
				if tt == mcap.TokenMessage {
					cnt++
					if cnt%(n/6) == n/12 {
						sample()
						if validate {
							rep.Max("lexer_chunk_buffer_capacity", int64(mcap.VerifLexerChunkBufCap(l)))
							if c := mcap.VerifLexerChunkBufCap(l); c > 2*chunkBytes+4096 {
								return cnt, fmt.Errorf("lexer chunk buffer capacity %d exceeds twice the largest chunk (%d)", c, chunkBytes)
							}
						}
					}
				}
			}
		}
	}
	iterRun := func(opts ...mcap.ReadOpt) func(io.Reader, func()) (int, error) {
		return func(src io.Reader, sample func()) (int, error) {
			rd, err := mcap.NewReader(src)
			if err != nil {
				return 0, err
			}
			defer rd.Close()
			it, err := rd.Messages(opts...)
			if err != nil {
				return 0, err
			}
			msg := &mcap.Message{}
			cnt := 0
			for {
				_, _, _, err := it.NextInto(msg)
				if err != nil {
					if errors.Is(err, io.EOF) {
						return cnt, nil
					}
					return cnt, err
				}
				cnt++
				if cnt%(n/6) == n/12 {
					sample()
				}
			}
		}
	}
	modes := []mode{
		{"lexer", lexRun(false)},
		{"lexer(validate)", lexRun(true)},
		{"Messages(UsingIndex(false))", iterRun(mcap.UsingIndex(false))},
		{"Messages(InOrder(LogTimeOrder))", iterRun(mcap.InOrder(mcap.LogTimeOrder))},
		{"Messages(UsingIndex(true))", iterRun(mcap.UsingIndex(true))},
	}
	for _, m := range modes {
		src, err := os.Open(path)
		if err != nil {
			rep.Inconclusive(err.Error())
			return
		}
		base := liveHeap()
		var maxGrowth uint64
		samples := 0
		cnt, err := m.run(src, func() {
			samples++
			if h := liveHeap(); h > base && h-base > maxGrowth {
				maxGrowth = h - base
			}
		})
		src.Close()
		rep.Eval(1)
		desc := fmt.Sprintf("%s over a %d MiB file (%s, %d KiB chunks)", m.name, st.Size()>>20, nz(comp), chunkBytes>>10)
		if err != nil {
			rep.Violate("sequential-read-failed", desc+": "+err.Error(), witness)
			return
		}
		if cnt != n || samples < 4 {
			rep.Inconclusive(fmt.Sprintf("%s: %d of %d messages, %d heap samples", desc, cnt, n, samples))
			return
		}
		rep.Count("heap_samples", int64(samples))
		rep.Max("max_live_heap_growth_"+nz(comp)+"_"+m.name, int64(maxGrowth))
		rep.Distinct("sequential", comp, m.name)
		if maxGrowth > bound {
			rep.Violate("reader-retains-data", fmt.Sprintf("%s: live heap grew by %d bytes while reading (bound: 4 chunks + %d MiB allowance = %d)", desc, maxGrowth, c20Allowance>>20, bound), witness)
			return
		}
	}
}

func nz(s string) string {
	if s == "" {
		return "none"
	}
	return s
}

// ---- attachments stream in constant memory

type patternReader struct {
	n, pos int64
	crc    uint32
}

func (p *patternReader) Read(b []byte) (int, error) {
	if p.pos >= p.n {
		return 0, io.EOF
	}
	m := int64(len(b))
	if m > p.n-p.pos {
		m = p.n - p.pos
	}
	for i := int64(0); i < m; i++ {
		b[i] = byte((p.pos + i) * 131 >> 3)
	}
	p.pos += m
	return int(m), nil
}

type countingSink struct{ n int64 }

func (c *countingSink) Write(b []byte) (int, error) { c.n += int64(len(b)); return len(b), nil }

func totalAlloc() uint64 {
	var ms runtime.MemStats
	runtime.ReadMemStats(&ms)
	return ms.TotalAlloc
}

const c20AttachmentBudget = 4 << 20

func checkC20Attachments(ctx *core.Ctx, rep *core.Report) {
	sizes := []int64{1 << 10, 100 << 10, 1 << 20, 16 << 20}
	if ctx.Thorough() {
		sizes = append(sizes, 64<<20, 256<<20)
	}
	for _, size := range sizes {
		witness := map[string]any{"stage": "attachment", "size": size}
		for _, chunked := range []bool{false, true} {
			sink := &countingSink{}
			w, err := mcap.NewWriter(sink, &mcap.WriterOptions{Chunked: chunked, ChunkSize: 1 << 20, IncludeCRC: true})
			if err != nil {
				rep.Inconclusive(err.Error())
				return
			}
			_ = w.WriteHeader(&mcap.Header{})
			a0 := totalAlloc()
			err = w.WriteAttachment(&mcap.Attachment{LogTime: 1, CreateTime: 2, Name: "big", MediaType: "application/octet-stream", DataSize: uint64(size), Data: &patternReader{n: size}})
			d := totalAlloc() - a0
			rep.Eval(1)
			rep.Distinct("attachment-write", size, chunked)
			rep.Max("max_alloc_during_WriteAttachment", int64(d))
			if err != nil {
				rep.Violate("attachment-write-failed", fmt.Sprintf("WriteAttachment(%d bytes): %v", size, err), witness)
				return
			}
			if d > c20AttachmentBudget {
				rep.Violate("attachment-write-buffers-data", fmt.Sprintf("WriteAttachment of %d bytes from a streaming source (chunked=%v) allocated %d bytes (budget %d)", size, chunked, d, c20AttachmentBudget), witness)
				return
			}
			if sink.n < size {
				rep.Violate("attachment-write-short", fmt.Sprintf("sink received %d bytes for a %d byte attachment", sink.n, size), witness)
				return
			}
			_ = w.Close()
		}
		// reader side: a file made of magic, header, one attachment record, data end, footer, magic - produced on the fly
		name, media := "big", "application/octet-stream"
		pre := binary.LittleEndian.AppendUint64(nil, 1)
		pre = binary.LittleEndian.AppendUint64(pre, 2)
		pre = binary.LittleEndian.AppendUint32(pre, uint32(len(name)))
		pre = append(pre, name...)
		pre = binary.LittleEndian.AppendUint32(pre, uint32(len(media)))
		pre = append(pre, media...)
		pre = binary.LittleEndian.AppendUint64(pre, uint64(size))
		crc := crc32.NewIEEE()
		crc.Write(pre)
		_, _ = io.Copy(crc, &patternReader{n: size})
		crcBytes := binary.LittleEndian.AppendUint32(nil, crc.Sum32())
		head := append(append([]byte(nil), refmcap.Magic...), refmcap.Record(refmcap.OpHeader, (&refmcap.Header{}).Body())...)
		head = append(head, refmcap.OpAttachment)
		head = binary.LittleEndian.AppendUint64(head, uint64(len(pre))+uint64(size)+4)
		head = append(head, pre...)
		tailB := append(append([]byte(nil), crcBytes...), refmcap.Record(refmcap.OpDataEnd, make([]byte, 4))...)
		tailB = append(tailB, refmcap.Record(refmcap.OpFooter, make([]byte, 20))...)
		tailB = append(tailB, refmcap.Magic...)
		for _, withCB := range []bool{true, false} {
			src := io.MultiReader(bytes.NewReader(head), &patternReader{n: size}, bytes.NewReader(tailB))
			got := int64(0)
			crcOK := false
			opts := &mcap.LexerOptions{ComputeAttachmentCRCs: true}
			if withCB {
				opts.AttachmentCallback = func(ar *mcap.AttachmentReader) error {
					n, err := io.Copy(io.Discard, ar.Data())
					got = n
					if err != nil {
						return err
					}
					p, err1 := ar.ParsedCRC()
					c, err2 := ar.ComputedCRC()
					crcOK = err1 == nil && err2 == nil && p == c
					return nil
				}
			}
			a0 := totalAlloc()
			l, err := mcap.NewLexer(struct{ io.Reader }{src}, opts)
			var lerr error
			tokens := 0
			if err == nil {
				for {
					_, _, e := l.Next(nil)
					if e != nil {
						if !errors.Is(e, io.EOF) {
							lerr = e
						}
						break
					}
					tokens++
				}
				l.Close()
			} else {
				lerr = err
			}
			d := totalAlloc() - a0
			rep.Eval(1)
			rep.Distinct("attachment-read", size, withCB)
			rep.Max("max_alloc_during_attachment_lexing", int64(d))
			desc := fmt.Sprintf("lexing a %d byte attachment from a streaming source (callback=%v)", size, withCB)
			if lerr != nil {
				rep.Violate("attachment-read-failed", desc+": "+lerr.Error(), witness)
				return
			}
			if tokens != 3 || (withCB && (got != size || !crcOK)) {
				rep.Violate("attachment-read-wrong", fmt.Sprintf("%s: %d tokens, callback saw %d bytes, crc ok=%v", desc, tokens, got, crcOK), witness)
				return
			}
			if d > c20AttachmentBudget {
				rep.Violate("attachment-read-buffers-data", fmt.Sprintf("%s allocated %d bytes (budget %d)", desc, d, c20AttachmentBudget), witness)
				return
			}
		}
	}
}

func RunC20(ctx *core.Ctx, rep *core.Report) {
	rep.Rule = "(1) files of 10..100 (thorough 10..1000) chunks written by the real Writer (none/zstd/lz4, message indexes on/off) with timestamps arranged so that consecutive chunk time ranges overlap 1..8 deep; the true depth d (max number of chunk intervals containing a common point) is re-measured by the reference decoder. Each is read through the index in file, log-time and reverse order and with topic/time filters, and after EVERY NextInto the verif hook is sampled: chunk slots allocated <= d (<= 1 in file order), slot buffer bytes <= slots x 2 x largest uncompressed chunk, compressed-record buffer <= 1.2 x largest chunk record. " +
		"(2) a 128 MiB (thorough 256 MiB) file of 256 KiB chunks per compression is written to disk and read back by the lexer (validation off/on), the scan iterator and the index-based iterator; live heap after forced GC, sampled during the read (and during the write), must stay below 4 chunks + 32 MiB - the file is 4-8 times larger than that bound; the validating lexer's chunk buffer <= 2 x largest chunk. " +
		"(3) attachments of 1 KiB..16 MiB (thorough ..256 MiB) produced by a generator that never holds the data: TotalAlloc delta across WriteAttachment (chunked and unchunked writer, counting sink) and across the lexer's handling of the record (callback draining to io.Discard and checking the CRC; and the no-callback skip path on a non-seekable source) <= 4 MiB. distinct_nontrivial counts distinct files / (compression, reader) pairs / attachment sizes measured."
	rep.Assumptions = []string{"heap and TotalAlloc measurements are taken while no other goroutine of the harness is running", "the 32 MiB allowance covers the codecs' window and pool buffers; an honest reader measures well below the bound and a reader retaining the file would measure several times above it"}
	n := ctx.Pick(60, 1500)
	core.Parallel(ctx, rep, n, func(i int) { checkC20Indexed(ctx, i, rep) })
	// the allocation-based stages run alone
	dir, err := os.MkdirTemp(ctx.BinDir, "c20-")
	if err != nil {
		rep.Inconclusive(err.Error())
		return
	}
	defer os.RemoveAll(dir)
	for _, comp := range []string{"", "zstd", "lz4"} {
		checkC20Sequential(ctx, rep, comp, dir)
	}
	checkC20Attachments(ctx, rep)
}
