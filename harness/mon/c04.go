package mon

import (
	"bytes"
	"fmt"
	"math"
	"sort"

	"github.com/foxglove/mcap/go/mcap"

	"verifharness/core"
	"verifharness/drive"
	"verifharness/gen"
	"verifharness/refmcap"
)

// msgPos locates a message inside a file: chunk ordinal (-1 = top level) and position in file order.
type msgPos struct {
	chunk int
	pos   int
}

// positions maps each message's unique Sequence to its location, from the reference decoder.
func positions(f *refmcap.File) map[uint32]msgPos {
	out := map[uint32]msgPos{}
	pos := 0
	ci := -1
	end := len(f.Recs)
	if f.DataEndIdx >= 0 {
		end = f.DataEndIdx
	}
	for _, r := range f.Recs[:end] {
		switch r.Op {
		case refmcap.OpMessage:
			if m, ok := r.Parsed.(*refmcap.Message); ok {
				out[m.Sequence] = msgPos{-1, pos}
				pos++
			}
		case refmcap.OpChunk:
			ci++
			if ch, ok := r.Parsed.(*refmcap.Chunk); ok {
				for _, in := range ch.Inner {
					if m, ok := in.Parsed.(*refmcap.Message); ok && in.Op == refmcap.OpMessage {
						out[m.Sequence] = msgPos{ci, pos}
						pos++
					}
				}
			}
		}
	}
	return out
}

// orderProblem checks C03's predicates on a time-ordered result: monotone log time and, for two
// messages of the same chunk with equal log time, file order (reverse file order when reading in reverse).
func orderProblem(res []drive.Triple, order mcap.ReadOrder, where map[uint32]msgPos) string {
	for i := 1; i < len(res); i++ {
		a, b := res[i-1], res[i]
		if order == mcap.LogTimeOrder && a.LogTime > b.LogTime {
			return fmt.Sprintf("log time decreases at position %d: %d then %d", i, a.LogTime, b.LogTime)
		}
		if order == mcap.ReverseLogTimeOrder && a.LogTime < b.LogTime {
			return fmt.Sprintf("log time increases at position %d: %d then %d", i, a.LogTime, b.LogTime)
		}
	}
	// same-chunk ties: within a run of equal log times, messages of one chunk must appear in file order
	for i := 0; i < len(res); {
		j := i
		for j < len(res) && res[j].LogTime == res[i].LogTime {
			j++
		}
		if j-i > 1 {
			last := map[int]int{}
			for k := i; k < j; k++ {
				p, ok := where[res[k].Seq]
				if !ok || p.chunk < 0 {
					continue
				}
				if prev, seen := last[p.chunk]; seen {
					if order == mcap.LogTimeOrder && p.pos < prev {
						return fmt.Sprintf("messages of chunk %d with equal log time %d come out of file order (position %d)", p.chunk, res[k].LogTime, k)
					}
					if order == mcap.ReverseLogTimeOrder && p.pos > prev {
						return fmt.Sprintf("messages of chunk %d with equal log time %d do not come in reverse file order (position %d)", p.chunk, res[k].LogTime, k)
					}
				}
				last[p.chunk] = p.pos
			}
		}
		i = j
	}
	return ""
}

// selectTriples is the reference filter: topic in set (empty set = no restriction) and start <= t < end
// (unbounded = no upper bound).
func selectTriples(all []drive.Triple, topicOf map[uint16]string, topics []string, start, end uint64, unbounded bool) []drive.Triple {
	var tset map[string]bool
	if len(topics) > 0 {
		tset = map[string]bool{}
		for _, t := range topics {
			tset[t] = true
		}
	}
	var out []drive.Triple
	for _, t := range all {
		if tset != nil && !tset[topicOf[t.ChanID]] {
			continue
		}
		if t.LogTime < start {
			continue
		}
		if !unbounded && t.LogTime >= end {
			continue
		}
		out = append(out, t)
	}
	return out
}

type window struct {
	hasStart, hasEnd bool
	start, end       uint64
}

func (w window) String() string {
	s, e := "-inf", "+inf"
	if w.hasStart {
		s = fmt.Sprint(w.start)
	}
	if w.hasEnd {
		e = fmt.Sprint(w.end)
	}
	return "[" + s + "," + e + ")"
}

type spelling struct {
	name       string
	opts       []mcap.ReadOpt
	deprecated bool
}

// spellings lists every way the API offers to express w.
func spellings(w window) []spelling {
	var out []spelling
	switch {
	case !w.hasStart && !w.hasEnd:
		out = append(out, spelling{"none", nil, false})
	case w.hasStart && !w.hasEnd:
		out = append(out, spelling{"AfterNanos", []mcap.ReadOpt{mcap.AfterNanos(w.start)}, false})
		if w.start <= math.MaxInt64 {
			out = append(out, spelling{"After", []mcap.ReadOpt{mcap.After(int64(w.start))}, true})
		}
	case !w.hasStart && w.hasEnd:
		out = append(out, spelling{"BeforeNanos", []mcap.ReadOpt{mcap.BeforeNanos(w.end)}, false})
		if w.end <= math.MaxInt64 && w.end != 0 {
			out = append(out, spelling{"Before", []mcap.ReadOpt{mcap.Before(int64(w.end))}, true})
		}
	default:
		out = append(out, spelling{"AfterNanos,BeforeNanos", []mcap.ReadOpt{mcap.AfterNanos(w.start), mcap.BeforeNanos(w.end)}, false})
		out = append(out, spelling{"BeforeNanos,AfterNanos", []mcap.ReadOpt{mcap.BeforeNanos(w.end), mcap.AfterNanos(w.start)}, false})
		if w.end <= math.MaxInt64 && w.end != 0 {
			out = append(out, spelling{"After,Before", []mcap.ReadOpt{mcap.After(int64(w.start)), mcap.Before(int64(w.end))}, true})
			out = append(out, spelling{"Before,After", []mcap.ReadOpt{mcap.Before(int64(w.end)), mcap.After(int64(w.start))}, true})
		}
	}
	return out
}

type c04File struct {
	c       *Case
	data    []byte
	all     []drive.Triple
	topicOf map[uint16]string
	where   map[uint32]msgPos
	f       *refmcap.File
}

func c04Case(ctx *core.Ctx, i int) *Case {
	c := readerCase(ctx, "c04", i, -1)
	// restrict to configurations where index-based reading is well defined: either unchunked (the read
	// falls back to the scan) or chunked with the full index (C02 judges everything in between)
	if c.K.Chunked {
		c.K.SkipChunkIndex, c.K.SkipRepeatedChannelInfos, c.K.SkipRepeatedSchemas = false, false, false
	}
	return c
}

func prepareC04(c *Case, rep *core.Report) *c04File {
	res := writeClean(c, rep)
	if res == nil {
		return nil
	}
	f, err := decodeRef(c, res.Bytes())
	if err != nil {
		rep.Violate("undecodable", fmt.Sprintf("%s: %v", c.Describe(), err), c.Witness())
		return nil
	}
	cf := &c04File{c: c, data: res.Bytes(), all: expect(c).triples, topicOf: map[uint16]string{}, where: positions(f), f: f}
	for id, ch := range c.W.ChannelByID() {
		cf.topicOf[id] = ch.Topic
	}
	return cf
}

// boundaries collects the window end points named in the property.
func boundaries(cf *c04File) []uint64 {
	set := map[uint64]bool{0: true, 1: true, 1 << 63: true, math.MaxUint64 - 1: true, math.MaxUint64: true, math.MaxInt64: true}
	for _, t := range cf.all {
		set[t.LogTime] = true
	}
	for _, r := range cf.f.Chunks() {
		if ch, ok := r.Parsed.(*refmcap.Chunk); ok {
			for _, v := range []uint64{ch.MessageStartTime, ch.MessageEndTime} {
				set[v] = true
				if v > 0 {
					set[v-1] = true
				}
				if v < math.MaxUint64 {
					set[v+1] = true
				}
			}
		}
	}
	out := make([]uint64, 0, len(set))
	for v := range set {
		out = append(out, v)
	}
	sort.Slice(out, func(i, j int) bool { return out[i] < out[j] })
	return out
}

func topicSets(cf *c04File) [][]string {
	topics := cf.c.W.Topics()
	sets := [][]string{nil, {}, {"no/such/topic"}}
	if len(topics) > 0 {
		sets = append(sets, []string{topics[0]}, topics)
		// a topic shared by several channels and a topic without messages, when they exist
		count := map[string]int{}
		for _, t := range cf.topicOf {
			count[t]++
		}
		used := map[string]bool{}
		for _, t := range cf.all {
			used[cf.topicOf[t.ChanID]] = true
		}
		for _, t := range topics {
			if count[t] > 1 {
				sets = append(sets, []string{t})
				break
			}
		}
		for _, t := range topics {
			if !used[t] {
				sets = append(sets, []string{t}, []string{t, topics[len(topics)-1]})
				break
			}
		}
		if len(topics) > 2 {
			sets = append(sets, []string{topics[1], topics[len(topics)-1], "no/such/topic"})
		}
	}
	return sets
}

type readMode struct {
	name  string
	opts  []mcap.ReadOpt
	order mcap.ReadOrder
	index bool
}

var c04Modes = []readMode{
	{"scan", []mcap.ReadOpt{mcap.UsingIndex(false)}, mcap.FileOrder, false},
	{"index/file", []mcap.ReadOpt{mcap.UsingIndex(true)}, mcap.FileOrder, true},
	{"index/logtime", []mcap.ReadOpt{mcap.InOrder(mcap.LogTimeOrder)}, mcap.LogTimeOrder, true},
	{"index/reverse", []mcap.ReadOpt{mcap.InOrder(mcap.ReverseLogTimeOrder)}, mcap.ReverseLogTimeOrder, true},
}

// judgeSelection compares one read with the reference filter. It returns a matcher kind ("" = fine).
func judgeSelection(cf *c04File, w window, sp spelling, topics []string, mode readMode, hasIndex bool) (kind, msg string) {
	opts := append(append([]mcap.ReadOpt(nil), mode.opts...), sp.opts...)
	if topics != nil {
		opts = append(opts, mcap.WithTopics(topics))
	}
	ir := drive.ReadMessages(bytes.NewReader(cf.data), drive.IterOpts{Opts: opts})
	desc := fmt.Sprintf("%s: window %s spelled %s, topics %q, mode %s", cf.c.Describe(), w, sp.name, topics, mode.name)
	if ir.Panic != nil {
		return "panic", desc + ": " + ir.Panic.Error()
	}
	start, end, unbounded := uint64(0), uint64(0), true
	if w.hasStart {
		start = w.start
	}
	if w.hasEnd {
		end, unbounded = w.end, false
	}
	want := selectTriples(cf.all, cf.topicOf, topics, start, end, unbounded)
	if err := ir.Failed(); err != nil {
		if mode.order != mcap.FileOrder && !hasIndex {
			return "", "" // time-ordered read of a file without index: an error is the documented outcome
		}
		if sp.deprecated {
			return "deprecated-window-rejected", fmt.Sprintf("%s: rejected with %q although the same window is accepted in nanosecond form", desc, err)
		}
		return "read-error", desc + ": " + err.Error()
	}
	var same bool
	if mode.order == mcap.FileOrder {
		same = eqStrings(tripleKeys(want), tripleKeys(ir.Triples))
	} else {
		same = eqStrings(sortedKeys(want), sortedKeys(ir.Triples))
	}
	if !same {
		kind = "selection"
		// recognise the recorded defects precisely
		if unbounded {
			reduced, n := dropMaxLogTime(want)
			if n > 0 && eqStrings(sortedKeys(reduced), sortedKeys(ir.Triples)) {
				return "logtime-max-dropped", fmt.Sprintf("%s: %d message(s) at log time 2^64-1 missing although no upper bound was given", desc, n)
			}
		}
		if sp.deprecated {
			return "deprecated-window-ignored", fmt.Sprintf("%s: returned %d messages, the window selects %d", desc, len(ir.Triples), len(want))
		}
		return kind, fmt.Sprintf("%s: returned %d messages, the reference filter selects %d: %s", desc, len(ir.Triples), len(want), firstDiff(tripleKeys(want), tripleKeys(ir.Triples)))
	}
	if mode.order != mcap.FileOrder {
		if p := orderProblem(ir.Triples, mode.order, cf.where); p != "" {
			return "order", desc + ": " + p
		}
	}
	return "", ""
}

func checkC04Case(c *Case, rep *core.Report, r interface{ Intn(int) int }, nWindows int) {
	cf := prepareC04(c, rep)
	if cf == nil {
		return
	}
	hasIndex := c.K.Chunked && len(cf.f.SummaryRecs(refmcap.OpChunkIndex)) > 0
	bs := boundaries(cf)
	windows := []window{{}, {hasStart: true, hasEnd: true, start: 0, end: math.MaxUint64}}
	for len(windows) < nWindows {
		a, b := bs[r.Intn(len(bs))], bs[r.Intn(len(bs))]
		if a > b {
			a, b = b, a
		}
		switch r.Intn(6) {
		case 0:
			windows = append(windows, window{hasStart: true, start: a})
		case 1:
			windows = append(windows, window{hasEnd: true, end: b})
		case 2:
			windows = append(windows, window{hasStart: true, hasEnd: true, start: a, end: a}) // empty window
		default:
			windows = append(windows, window{hasStart: true, hasEnd: true, start: a, end: b})
		}
	}
	if len(cf.all) > 0 {
		rep.Distinct(c.Shape.String(), c.K.String())
	}
	reported := map[string]bool{}
	for _, w := range windows {
		for _, sp := range spellings(w) {
			for _, ts := range topicSets(cf) {
				for _, mode := range c04Modes {
					rep.Count("reads", 1)
					kind, msg := judgeSelection(cf, w, sp, ts, mode, hasIndex)
					if kind != "" && !reported[kind] {
						reported[kind] = true
						rep.Violate(kind, msg, c.Witness())
					}
					if sp.deprecated {
						rep.Count("reads_with_deprecated_spelling", 1)
					}
				}
			}
		}
	}
	if c.Index%60 == 0 {
		rep.Sample(map[string]any{"case": c.Index, "config": c.K.String(), "messages": len(cf.all), "windows": fmt.Sprint(windows), "topic_sets": len(topicSets(cf))})
	}
}

func RunC04(ctx *core.Ctx, rep *core.Report) {
	rep.Rule = "files written by the real Writer (unchunked, or chunked with the full index; multi-chunk favoured); per file: windows drawn from {0,1,message times, chunk start/end +-1, 2^63, 2^64-2, 2^64-1} incl. one-sided, empty and absent windows, " +
		"each in every spelling the API offers (AfterNanos/BeforeNanos in both orders, deprecated After/Before in both orders where representable), x topic sets (nil, empty, unknown, single, shared, without messages, all) x {scan, index file order, log-time, reverse}. " +
		"Oracle: reference filter over the call log; time-ordered results additionally satisfy C03's order predicates. distinct_nontrivial counts distinct (shape, configuration) pairs with at least one message."
	rep.Assumptions = []string{"the call log is the full unrestricted content", "deprecated int64 options are not exercised with end = 0 (documented as 'unset')"}
	n := ctx.Pick(150, 3000)
	nw := ctx.Pick(5, 9)
	core.Parallel(ctx, rep, n, func(i int) {
		rep.Eval(1)
		c := c04Case(ctx, i)
		checkC04Case(c, rep, gen.Rng(ctx.Seed, "c04w", i), nw)
	})
}
