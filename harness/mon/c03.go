package mon

import (
	"bytes"
	"fmt"
	"math"
	"math/rand"

	"github.com/foxglove/mcap/go/mcap"

	"verifharness/core"
	"verifharness/drive"
	"verifharness/gen"
	"verifharness/refmcap"
)

// ---- exhaustive small scope: 1..3 chunks x 0..3 messages per chunk, timestamps from {0,1,2,3}

const arrangements = 85 // 1 + 4 + 16 + 64

// decodeArrangement returns the timestamps of one chunk for arrangement a in [0,85).
func decodeArrangement(a int) []uint64 {
	n := 0
	for _, size := range []int{1, 4, 16, 64} {
		if a < size {
			break
		}
		a -= size
		n++
	}
	out := make([]uint64, n)
	for i := n - 1; i >= 0; i-- {
		out[i] = uint64(a % 4)
		a /= 4
	}
	return out
}

var (
	smallSchema = &refmcap.Schema{ID: 1, Name: "s", Encoding: "e", Data: []byte{1}}
	smallChanA  = &refmcap.Channel{ID: 1, SchemaID: 1, Topic: "t/a", MessageEncoding: "x"}
	smallChanB  = &refmcap.Channel{ID: 2, SchemaID: 0, Topic: "t/b", MessageEncoding: "x"}
)

type smallFile struct {
	id     int
	arr    []int
	data   []byte
	all    []drive.Triple
	where  map[uint32]msgPos
	topics map[uint16]string
}

// smallFileFor builds file number id of the enumeration: ids [0,85) one chunk, [85, 85+85^2) two chunks, then three.
func smallFileFor(id int) (*smallFile, error) {
	var arr []int
	switch {
	case id < arrangements:
		arr = []int{id}
	case id < arrangements+arrangements*arrangements:
		x := id - arrangements
		arr = []int{x / arrangements, x % arrangements}
	default:
		x := id - arrangements - arrangements*arrangements
		arr = []int{x / (arrangements * arrangements), (x / arrangements) % arrangements, x % arrangements}
	}
	sf := &smallFile{id: id, arr: arr, where: map[uint32]msgPos{}, topics: map[uint16]string{1: "t/a", 2: "t/b"}}
	p := &refmcap.Plan{Header: refmcap.Header{Library: "ref"}, SummaryOffsets: true}
	top := func(it refmcap.Item) { p.Data = append(p.Data, refmcap.Elem{Item: &it}) }
	top(refmcap.Item{Schema: smallSchema})
	top(refmcap.Item{Channel: smallChanA})
	top(refmcap.Item{Channel: smallChanB})
	ord := 0
	sCanon := drive.CanonSchemaR(smallSchema)
	for ci, a := range arr {
		cp := &refmcap.ChunkPlan{Midx: refmcap.MidxMessages}
		ts := decodeArrangement(a)
		if len(ts) == 0 && (id+ci)%2 == 0 {
			// what the Go writer emits for a message-less chunk: only schema/channel records
			cp.Items = append(cp.Items, refmcap.Item{Schema: smallSchema}, refmcap.Item{Channel: smallChanA})
		}
		for _, t := range ts {
			ch := smallChanA
			sc := sCanon
			if ord%2 == 1 {
				ch = smallChanB
				sc = "nil-schema"
			}
			m := &refmcap.Message{ChannelID: ch.ID, Sequence: uint32(ord), LogTime: t, PublishTime: t, Data: []byte{byte(ord)}}
			cp.Items = append(cp.Items, refmcap.Item{Message: m})
			sf.all = append(sf.all, drive.Triple{S: sc, C: drive.CanonChannelR(ch), M: drive.CanonMessageR(m), Seq: m.Sequence, LogTime: t, ChanID: ch.ID})
			sf.where[m.Sequence] = msgPos{ci, ord}
			ord++
		}
		p.Data = append(p.Data, refmcap.Elem{Chunk: cp})
	}
	for _, op := range []byte{refmcap.OpSchema, refmcap.OpChannel, refmcap.OpStatistics, refmcap.OpChunkIndex} {
		p.Summary = append(p.Summary, refmcap.SummaryGroup{Op: op})
	}
	enc, err := refmcap.Encode(p)
	if err != nil {
		return nil, err
	}
	sf.data = enc.Bytes
	return sf, nil
}

// intervalPattern classifies how the chunk time ranges relate (for the evidence).
func intervalPattern(arr []int) string {
	type iv struct {
		lo, hi uint64
		empty  bool
	}
	var ivs []iv
	for _, a := range arr {
		ts := decodeArrangement(a)
		if len(ts) == 0 {
			ivs = append(ivs, iv{empty: true})
			continue
		}
		lo, hi := ts[0], ts[0]
		for _, t := range ts {
			if t < lo {
				lo = t
			}
			if t > hi {
				hi = t
			}
		}
		ivs = append(ivs, iv{lo: lo, hi: hi})
	}
	s := ""
	for i := 0; i < len(ivs); i++ {
		for j := i + 1; j < len(ivs); j++ {
			a, b := ivs[i], ivs[j]
			switch {
			case a.empty || b.empty:
				s += "E"
			case a.lo == b.lo && a.hi == b.hi:
				s += "="
			case a.hi < b.lo:
				s += "<"
			case b.hi < a.lo:
				s += ">"
			case a.hi == b.lo || b.hi == a.lo:
				s += "m"
			case a.lo <= b.lo && a.hi >= b.hi:
				s += "c"
			case b.lo <= a.lo && b.hi >= a.hi:
				s += "d"
			default:
				s += "o"
			}
		}
	}
	return s
}

// checkTimeOrdered reads data in the given order twice and applies (i)-(iv).
func checkTimeOrdered(data []byte, want []drive.Triple, where map[uint32]msgPos, order mcap.ReadOrder, extra []mcap.ReadOpt) (kind, msg string, n int) {
	opts := append([]mcap.ReadOpt{mcap.InOrder(order)}, extra...)
	a := drive.ReadMessages(bytes.NewReader(data), drive.IterOpts{Opts: opts})
	if err := a.Failed(); err != nil {
		k := "read-error"
		if a.Panic != nil {
			k = "panic"
		}
		return k, fmt.Sprintf("%s read failed: %v", orderNames[order], err), 0
	}
	if !eqStrings(sortedKeys(want), sortedKeys(a.Triples)) {
		return "not-exactly-once", fmt.Sprintf("%s read returned %d messages, %d selected; as sorted multisets: %s", orderNames[order], len(a.Triples), len(want), firstDiff(sortedKeys(want), sortedKeys(a.Triples))), len(a.Triples)
	}
	if p := orderProblem(a.Triples, order, where); p != "" {
		return "order", fmt.Sprintf("%s read: %s", orderNames[order], p), len(a.Triples)
	}
	b := drive.ReadMessages(bytes.NewReader(data), drive.IterOpts{Opts: opts})
	if b.Failed() != nil || !eqStrings(tripleKeys(a.Triples), tripleKeys(b.Triples)) {
		return "not-repeatable", fmt.Sprintf("%s read: second read differs from the first (%v)", orderNames[order], b.Failed()), len(a.Triples)
	}
	return "", "", len(a.Triples)
}

func checkSmallFile(id int, rep *core.Report, withSelections bool) {
	sf, err := smallFileFor(id)
	if err != nil {
		rep.Inconclusive("reference encoder failed: " + err.Error())
		return
	}
	witness := map[string]any{"small_file": id, "arrangement": sf.arr}
	pat := intervalPattern(sf.arr)
	rep.Distinct("small", id)
	rep.Count("small_files", 1)
	core.NotePattern(rep, "interval_patterns", pat)
	for _, order := range []mcap.ReadOrder{mcap.LogTimeOrder, mcap.ReverseLogTimeOrder} {
		kind, msg, n := checkTimeOrdered(sf.data, sf.all, sf.where, order, nil)
		rep.Count("messages_checked", int64(n))
		if kind != "" {
			rep.Violate(kind, fmt.Sprintf("small file %d (chunks %v): %s", id, describeArr(sf.arr), msg), witness)
			return
		}
		if withSelections {
			for a := uint64(0); a <= 4; a++ {
				for b := a; b <= 4; b++ {
					for ti, ts := range [][]string{nil, {"t/a"}, {"t/b"}} {
						want := selectTriples(sf.all, sf.topics, ts, a, b, false)
						extra := []mcap.ReadOpt{mcap.AfterNanos(a), mcap.BeforeNanos(b)}
						if ts != nil {
							extra = append(extra, mcap.WithTopics(ts))
						}
						kind, msg, _ := checkTimeOrdered(sf.data, want, sf.where, order, extra)
						rep.Count("selection_reads", 1)
						if kind != "" {
							rep.Violate(kind, fmt.Sprintf("small file %d (chunks %v) window [%d,%d) topics #%d: %s", id, describeArr(sf.arr), a, b, ti, msg), witness)
							return
						}
					}
				}
			}
		}
	}
	if id%40000 == 7 {
		rep.Sample(map[string]any{"small_file": id, "chunks": describeArr(sf.arr), "interval_pattern": pat, "bytes": len(sf.data)})
	}
}

func describeArr(arr []int) [][]uint64 {
	out := make([][]uint64, len(arr))
	for i, a := range arr {
		out[i] = decodeArrangement(a)
	}
	return out
}

// ---- random large files

func c03RandomCase(ctx *core.Ctx, i int) (*Case, bool) {
	r := gen.Rng(ctx.Seed, "c03", i)
	c := &Case{Index: 3_000_000 + i, Seed: ctx.Seed, Class: 1}
	c.Shape = gen.Shape{Schemas: 1 + r.Intn(3), Channels: 1 + r.Intn(6), Messages: 20 + r.Intn(400), MaxPayload: 30, MaxLongStr: 20, ManyMapKeys: 2,
		TimeMode: []string{"ties", "smallrand", "rand", "boundary", "desc", "asc", "zerofirst"}[r.Intn(7)], Rewrites: r.Intn(3) == 0}
	c.W = gen.RandWorkload(r, c.Shape)
	useRef := i%2 == 1
	c.K = gen.Config{Chunked: true, ChunkSize: []int64{1, 50, 200, 1024, 4096}[r.Intn(5)], Compression: []string{"", "", "zstd", "lz4"}[r.Intn(4)], IncludeCRC: r.Intn(2) == 0,
		SkipMessageIndexing: r.Intn(3) == 0, SkipStatistics: r.Intn(3) == 0, SkipSummaryOffsets: r.Intn(3) == 0}
	return c, useRef
}

func checkC03Random(ctx *core.Ctx, i int, rep *core.Report) {
	c, useRef := c03RandomCase(ctx, i)
	r := gen.Rng(ctx.Seed, "c03x", i)
	var data []byte
	producer := "go-writer"
	if useRef {
		producer = "reference-encoder"
		_, _, nm, _, _ := c.W.Counts()
		l := RandLayout(r, nm, true)
		l.SummaryOrder = []byte{refmcap.OpSchema, refmcap.OpChannel, refmcap.OpStatistics, refmcap.OpChunkIndex, refmcap.OpAttachmentIndex, refmcap.OpMetadataIndex}
		l.EmptyCMC = false
		enc, err := refmcap.Encode(BuildPlan(c.W, l))
		if err != nil {
			rep.Inconclusive("reference encoder failed: " + err.Error())
			return
		}
		data = enc.Bytes
	} else {
		res := writeClean(c, rep)
		if res == nil {
			return
		}
		data = res.Bytes()
	}
	f, err := refmcap.Decode(data, nil)
	if err != nil {
		rep.Inconclusive("reference decoder failed on a generated file: " + err.Error())
		return
	}
	where := positions(f)
	all := expect(c).triples
	witness := c.Witness()
	witness["random_file"] = i
	witness["producer"] = producer
	nch := len(f.Chunks())
	rep.Count("random_files", 1)
	rep.Count("random_files_"+producer, 1)
	rep.Max("max_chunks_in_a_file", int64(nch))
	// cross-chunk ties present?
	seenT := map[uint64]int{}
	cross := false
	for _, t := range all {
		p := where[t.Seq]
		if prev, ok := seenT[t.LogTime]; ok && prev != p.chunk {
			cross = true
		}
		seenT[t.LogTime] = p.chunk
	}
	if cross {
		rep.Count("random_files_with_cross_chunk_ties", 1)
	}
	if len(all) > 0 && nch > 1 {
		rep.Distinct("random", c.Shape.String(), c.K.String(), producer)
	}
	topicOf := map[uint16]string{}
	for id, ch := range c.W.ChannelByID() {
		topicOf[id] = ch.Topic
	}
	topics := c.W.Topics()
	for _, order := range []mcap.ReadOrder{mcap.LogTimeOrder, mcap.ReverseLogTimeOrder} {
		kind, msg, n := checkTimeOrdered(data, all, where, order, nil)
		rep.Count("messages_checked", int64(n))
		if kind != "" {
			rep.Violate(kind, fmt.Sprintf("random file %d (%s, %s, %d chunks): %s", i, producer, c.Describe(), nch, msg), witness)
			return
		}
		// a few windows and topic subsets
		for k := 0; k < 4; k++ {
			a, b := all[r.Intn(len(all))].LogTime, all[r.Intn(len(all))].LogTime
			if a > b {
				a, b = b, a
			}
			if k == 0 && b < math.MaxUint64 {
				b++
			}
			var ts []string
			if k%2 == 1 && len(topics) > 0 {
				ts = []string{topics[r.Intn(len(topics))]}
			}
			want := selectTriples(all, topicOf, ts, a, b, false)
			extra := []mcap.ReadOpt{mcap.AfterNanos(a), mcap.BeforeNanos(b)}
			if ts != nil {
				extra = append(extra, mcap.WithTopics(ts))
			}
			kind, msg, _ := checkTimeOrdered(data, want, where, order, extra)
			rep.Count("selection_reads", 1)
			if kind != "" {
				rep.Violate(kind, fmt.Sprintf("random file %d (%s, %s) window [%d,%d) topics %q: %s", i, producer, c.Describe(), a, b, ts, msg), witness)
				return
			}
		}
	}
	if i%100 == 0 {
		rep.Sample(map[string]any{"random_file": i, "producer": producer, "shape": c.Shape.String(), "config": c.K.String(), "chunks": nch, "messages": len(all), "cross_chunk_ties": cross})
	}
}

// ---- structured large files: long index queues and deep overlap (reference encoder)

// structuredFile builds family 0: one chunk of 1100..3000 messages followed by small chunks nested in its
// time range (the iterator's index queue grows past every compaction threshold before the next chunk
// loads); family 1: 260..420 chunks of two messages, one early and one late, so that every chunk's
// time range contains every other's start (hundreds of chunks are live at once).
func structuredFile(ctx *core.Ctx, i int) (data []byte, all []drive.Triple, where map[uint32]msgPos, desc string, err error) {
	r := gen.Rng(ctx.Seed, "c03s", i)
	p := &refmcap.Plan{Header: refmcap.Header{Library: "ref"}, SummaryOffsets: true}
	top := func(it refmcap.Item) { p.Data = append(p.Data, refmcap.Elem{Item: &it}) }
	top(refmcap.Item{Schema: smallSchema})
	top(refmcap.Item{Channel: smallChanA})
	top(refmcap.Item{Channel: smallChanB})
	where = map[uint32]msgPos{}
	ord := 0
	sCanon := drive.CanonSchemaR(smallSchema)
	comp := []string{"", "zstd", "lz4"}[i%3]
	addMsg := func(cp *refmcap.ChunkPlan, ci int, t uint64) {
		ch, sc := smallChanA, sCanon
		if ord%2 == 1 {
			ch, sc = smallChanB, "nil-schema"
		}
		m := &refmcap.Message{ChannelID: ch.ID, Sequence: uint32(ord), LogTime: t, PublishTime: t, Data: []byte{byte(ord), byte(ord >> 8)}}
		cp.Items = append(cp.Items, refmcap.Item{Message: m})
		all = append(all, drive.Triple{S: sc, C: drive.CanonChannelR(ch), M: drive.CanonMessageR(m), Seq: m.Sequence, LogTime: t, ChanID: ch.ID})
		where[m.Sequence] = msgPos{ci, ord}
		ord++
	}
	nch := 0
	newChunk := func() *refmcap.ChunkPlan {
		cp := &refmcap.ChunkPlan{Midx: refmcap.MidxMode(1 + i%2), Compression: comp}
		p.Data = append(p.Data, refmcap.Elem{Chunk: cp})
		nch++
		return cp
	}
	switch i % 2 {
	case 0:
		n := 1100 + r.Intn(1900)
		big := newChunk()
		for k := 0; k < n; k++ {
			t := uint64(10 * k)
			if r.Intn(50) == 0 && k > 0 {
				t = uint64(10 * (k - 1)) // occasional ties and small inversions
			}
			addMsg(big, 0, t)
		}
		small := 2 + r.Intn(5)
		for c := 0; c < small; c++ {
			cp := newChunk()
			base := uint64(r.Intn(10 * n))
			if c == 0 {
				base = uint64(10*n - 40) // nested near the end
			} else if c == 1 {
				base = 15 // nested near the start
			}
			for k := 0; k < 1+r.Intn(4); k++ {
				addMsg(cp, nch-1, base+uint64(5*k))
			}
		}
		desc = fmt.Sprintf("long-queue: one chunk of %d messages + %d small nested chunks (%s)", n, small, nz(comp))
	default:
		n := 260 + r.Intn(160)
		for c := 0; c < n; c++ {
			cp := newChunk()
			addMsg(cp, c, uint64(c))
			addMsg(cp, c, uint64(1_000_000+c))
		}
		desc = fmt.Sprintf("deep-overlap: %d chunks all overlapping one another (%s)", n, nz(comp))
	}
	for _, op := range []byte{refmcap.OpSchema, refmcap.OpChannel, refmcap.OpStatistics, refmcap.OpChunkIndex} {
		p.Summary = append(p.Summary, refmcap.SummaryGroup{Op: op})
	}
	enc, err := refmcap.Encode(p)
	if err != nil {
		return nil, nil, nil, "", err
	}
	return enc.Bytes, all, where, desc, nil
}

func checkC03Structured(ctx *core.Ctx, i int, rep *core.Report) {
	data, all, where, desc, err := structuredFile(ctx, i)
	if err != nil {
		rep.Inconclusive("reference encoder failed: " + err.Error())
		return
	}
	witness := map[string]any{"structured_file": i, "description": desc}
	rep.Distinct("structured", i)
	rep.Count("structured_files", 1)
	for _, order := range []mcap.ReadOrder{mcap.LogTimeOrder, mcap.ReverseLogTimeOrder} {
		kind, msg, n := checkTimeOrdered(data, all, where, order, nil)
		rep.Count("messages_checked", int64(n))
		if kind != "" {
			rep.Violate(kind, fmt.Sprintf("structured file %d (%s): %s", i, desc, msg), witness)
			return
		}
	}
	if i < 2 {
		rep.Sample(map[string]any{"structured_file": i, "description": desc, "messages": len(all), "bytes": len(data)})
	}
}

func RunC03(ctx *core.Ctx, rep *core.Report) {
	rep.Rule = "small scope, exhaustive: every file of 1..3 chunks x 0..3 messages per chunk with log times from {0,1,2,3} on 2 channels, produced by the reference encoder (ids 0..84 one chunk, 85..7309 two, 7310..621434 three; message-less chunks alternate between 'schema/channel records only' and 'no record'). " +
		"quick: the complete 1-2-chunk space plus a seeded 20000-file sample of the 3-chunk space; thorough: all 621435 files, every 8th also under all 15 windows x 3 topic selections. " +
		"Plus random large files (Go writer with tiny chunk sizes / reference encoder with random partitions): tens to hundreds of chunks, heavy ties, log times at 0 and up to 2^64-1. " +
		"Plus structured large files from the reference encoder: 'long queue' (one chunk of 1100-3000 messages followed by small chunks nested in its range) and 'deep overlap' (260-420 chunks that all overlap one another). Oracle per read: exactly-once as multiset, monotone log time, same-chunk ties in (reverse) file order, second read identical. distinct_nontrivial counts distinct files read."
	rep.Assumptions = []string{"chunk membership and in-chunk order come from the reference encoder/decoder", "ties across chunks are unconstrained, as in the property", "windows of the random files are taken from message times, so an upper bound of 2^64-1 excludes messages at that time as the half-open window requires"}
	total := arrangements + arrangements*arrangements + arrangements*arrangements*arrangements
	two := arrangements + arrangements*arrangements
	var ids []int
	if ctx.Thorough() {
		rep.Exhaustive = true
		ids = make([]int, total)
		for i := range ids {
			ids[i] = i
		}
	} else {
		for i := 0; i < two; i++ {
			ids = append(ids, i)
		}
		r := rand.New(rand.NewSource(ctx.Seed*977 + 3))
		for k := 0; k < 20000; k++ {
			ids = append(ids, two+r.Intn(total-two))
		}
	}
	core.Parallel(ctx, rep, len(ids), func(k int) {
		rep.Eval(1)
		sel := false
		if ctx.Thorough() {
			sel = ids[k]%8 == 0
		} else {
			sel = ids[k]%64 == 0
		}
		checkSmallFile(ids[k], rep, sel)
	})
	nr := ctx.Pick(300, 20000)
	core.Parallel(ctx, rep, nr, func(i int) {
		rep.Eval(1)
		checkC03Random(ctx, i, rep)
	})
	ns := ctx.Pick(24, 1200)
	core.Parallel(ctx, rep, ns, func(i int) {
		rep.Eval(1)
		checkC03Structured(ctx, i, rep)
	})
}
