package mon

import (
	"bufio"
	"bytes"
	"crypto/sha256"
	"encoding/hex"
	"errors"
	"fmt"
	"io"
	"os"
	"os/exec"
	"path/filepath"
	"runtime/pprof"
	"strconv"
	"strings"
	"sync"

	"github.com/foxglove/mcap/go/mcap"

	"verifharness/core"
	"verifharness/drive"
	"verifharness/gen"
)

func c13Case(seed int64, i int) *Case {
	ctx := &core.Ctx{Seed: seed}
	r := gen.Rng(seed, "c13", i)
	c := &Case{Index: i, Seed: seed}
	c.Class = []int{0, 1, 1, 2}[r.Intn(4)]
	if i%10 != 0 && c.Class == 2 {
		c.Class = 1
	}
	c.Shape = gen.RandShape(r, c.Class)
	c.Shape.ManyMapKeys = 8 + r.Intn(57) // metadata maps with 8..64 keys
	if c.Shape.Channels == 0 {
		c.Shape.Channels = 1 + r.Intn(30)
	}
	if c.Shape.Metadata == 0 {
		c.Shape.Metadata = 1 + r.Intn(3)
	}
	c.W = gen.RandWorkload(r, c.Shape)
	c.K = gen.RandConfig(r)
	if c.K.Chunked && c.K.Compression == "zstd" && c.K.Level >= 2 && c.K.ChunkSize != 0 && c.K.ChunkSize < 4096 {
		c.K.Level = r.Intn(2)
	}
	_ = ctx
	return c
}

// smallC13Case is used under the race detector, whose cost grows with the bytes touched: many small
// workloads exercise the same shared state (package-level variables, pools) as few large ones.
func smallC13Case(seed int64, i int) *Case {
	r := gen.Rng(seed, "c13small", i)
	c := &Case{Index: i, Seed: seed, Class: 0}
	c.Shape = gen.RandShape(r, 0)
	c.Shape.Channels = 1 + r.Intn(6)
	c.Shape.Messages = 3 + r.Intn(20)
	c.Shape.Metadata = 1 + r.Intn(2)
	c.Shape.ManyMapKeys = 8 + r.Intn(20)
	c.Shape.MaxLongStr = 60
	c.W = gen.RandWorkload(r, c.Shape)
	c.K = gen.RandConfig(r)
	return c
}

// bigC13Case produces chunks above 1 MiB so that the zstd encoder's concurrent block path is engaged.
func bigC13Case(seed int64, i int) *Case {
	r := gen.Rng(seed, "c13big", i)
	c := &Case{Index: 5_000_000 + i, Seed: seed, Class: 2}
	c.Shape = gen.Shape{Schemas: 2, Channels: 4, Messages: 60 + r.Intn(40), MaxPayload: 60000, MaxLongStr: 50, ManyMapKeys: 16, TimeMode: "asc", Metadata: 2, Attachments: 1}
	c.W = gen.RandWorkload(r, c.Shape)
	c.K = gen.Config{Chunked: true, ChunkSize: 4 << 20, Compression: []string{"zstd", "lz4", "zstd"}[i%3], Level: i % 2, IncludeCRC: true}
	return c
}

func hashOutput(c *Case, reverse bool) (string, error) {
	res := drive.RunWriter(c.W, c.K, drive.NewSink(), &drive.WriteOpts{ReverseMaps: reverse})
	if res.NewErr != nil {
		return "", res.NewErr
	}
	if f := res.FirstErr(); f != nil {
		if f.Panic != nil {
			return "", f.Panic
		}
		return "", f.Err
	}
	h := sha256.Sum256(res.Bytes())
	return hex.EncodeToString(h[:]), nil
}

// chunkCopyHash re-writes the chunks of a file into a fresh Writer through the chunk-level calls
// (WriteChunkWithIndexes with the chunk records and message indexes as lexed, channels not registered on
// the new writer - what a tool that copies whole chunks between files does) and hashes the output.
func chunkCopyHash(c *Case, data []byte) (string, int, error) {
	lexer, err := mcap.NewLexer(bytes.NewReader(data), &mcap.LexerOptions{SkipMagic: c.K.SkipMagic, EmitChunks: true})
	if err != nil {
		return "", 0, err
	}
	var out bytes.Buffer
	w, err := mcap.NewWriter(&out, &mcap.WriterOptions{IncludeCRC: true, Chunked: true, ChunkSize: 1 << 20})
	if err != nil {
		return "", 0, err
	}
	if err := w.WriteHeader(&mcap.Header{Profile: "copy"}); err != nil {
		return "", 0, err
	}
	var cur *mcap.Chunk
	var idx []*mcap.MessageIndex
	chunks := 0
	flush := func() error {
		if cur == nil {
			return nil
		}
		chunks++
		err := w.WriteChunkWithIndexes(cur, idx)
		cur, idx = nil, nil
		return err
	}
	for {
		tt, rec, err := lexer.Next(nil)
		if err != nil {
			if errors.Is(err, io.EOF) {
				break
			}
			return "", 0, err
		}
		switch tt {
		case mcap.TokenChunk:
			if err := flush(); err != nil {
				return "", 0, err
			}
			ch, err := mcap.ParseChunk(append([]byte(nil), rec...))
			if err != nil {
				return "", 0, err
			}
			cur = ch
		case mcap.TokenMessageIndex:
			mi, err := mcap.ParseMessageIndex(append([]byte(nil), rec...))
			if err != nil {
				return "", 0, err
			}
			idx = append(idx, mi)
		case mcap.TokenDataEnd:
			if err := flush(); err != nil {
				return "", 0, err
			}
		}
	}
	if err := flush(); err != nil {
		return "", 0, err
	}
	if err := w.Close(); err != nil {
		return "", 0, err
	}
	h := sha256.Sum256(out.Bytes())
	return hex.EncodeToString(h[:]), chunks, nil
}

// readersDigest hashes what the lexer and both iterators return for a file.
func readersDigest(c *Case, data []byte) string {
	h := sha256.New()
	custom := c.K.Chunked && c.K.Compression == "custom"
	lr := drive.Lex(bytes.NewReader(data), drive.LexOpts{SkipMagic: c.K.SkipMagic, Validate: true, ComputeAttCRC: true, Custom: custom})
	for _, o := range lr.Outs {
		h.Write([]byte{o.Op})
		h.Write([]byte(o.Canon))
	}
	fmt.Fprintf(h, "lexerr=%v|", lr.Err)
	if !custom && !c.K.SkipMagic {
		for _, opts := range [][]mcap.ReadOpt{{mcap.UsingIndex(false)}, nil, {mcap.InOrder(mcap.LogTimeOrder)}} {
			ir := drive.ReadMessages(bytes.NewReader(data), drive.IterOpts{Opts: opts})
			for _, t := range ir.Triples {
				h.Write([]byte(t.Key()))
			}
			fmt.Fprintf(h, "open=%v err=%v|", ir.OpenErr != nil, ir.Err != nil)
		}
	}
	return hex.EncodeToString(h.Sum(nil))
}

// C13Child prints "index sha256" for cases [start, start+count): run under different GOMAXPROCS.
func C13Child(args []string) {
	if len(args) < 4 {
		os.Exit(3)
	}
	seed, _ := strconv.ParseInt(args[0], 10, 64)
	start, _ := strconv.Atoi(args[1])
	count, _ := strconv.Atoi(args[2])
	big, _ := strconv.Atoi(args[3])
	w := bufio.NewWriter(os.Stdout)
	defer w.Flush()
	for i := start; i < start+count; i++ {
		c := c13Case(seed, i)
		h, err := hashOutput(c, false)
		fmt.Fprintf(w, "%d %s %v\n", i, h, err)
	}
	for i := 0; i < big; i++ {
		c := bigC13Case(seed, i)
		h, err := hashOutput(c, false)
		fmt.Fprintf(w, "%d %s %v\n", c.Index, h, err)
	}
}

// C13Race is the body of the -race binary: goroutines running independent writers and readers at once,
// every output compared with the golden digests computed sequentially beforehand.
func C13Race(args []string) {
	if len(args) < 4 {
		os.Exit(3)
	}
	if pf := os.Getenv("C13PROF"); pf != "" {
		f, _ := os.Create(pf)
		_ = pprof.StartCPUProfile(f)
		defer pprof.StopCPUProfile()
	}
	seed, _ := strconv.ParseInt(args[0], 10, 64)
	goroutines, _ := strconv.Atoi(args[1])
	perG, _ := strconv.Atoi(args[2])
	big, _ := strconv.Atoi(args[3])
	var cases []*Case
	for i := 0; i < goroutines*perG; i++ {
		c := smallC13Case(seed, 100_000+i)
		// under the race detector every zstd/lz4 encoder or decoder instance costs seconds (shadow memory for
		// their multi-megabyte windows): one case in eight uses each, the rest none/custom
		switch i % 8 {
		case 0:
			c.K.Compression, c.K.Level = "zstd", 0
		case 1:
			c.K.Compression, c.K.Level = "lz4", i%4
		default:
			if c.K.Compression == "zstd" || c.K.Compression == "lz4" {
				c.K.Compression = []string{"", "custom"}[i%2]
			}
		}
		if c.K.Chunked && c.K.ChunkSize != 0 && c.K.ChunkSize < 200 && (c.K.Compression == "zstd" || c.K.Compression == "lz4") {
			c.K.ChunkSize = 4096
		}
		cases = append(cases, c)
	}
	for i := 0; i < big; i++ {
		cases = append(cases, bigC13Case(seed, 100+i))
	}
	type golden struct {
		out, read string
		data      []byte
	}
	gold := make([]golden, len(cases))
	for i, c := range cases {
		res := drive.RunWriter(c.W, c.K, drive.NewSink(), nil)
		if res.NewErr != nil || res.FirstErr() != nil {
			fmt.Printf("SKIP %d\n", c.Index)
			continue
		}
		h := sha256.Sum256(res.Bytes())
		gold[i] = golden{out: hex.EncodeToString(h[:]), read: readersDigest(c, res.Bytes()), data: append([]byte(nil), res.Bytes()...)}
	}
	var wg sync.WaitGroup
	var mu sync.Mutex
	mismatches := 0
	instances := 0
	for g := 0; g < goroutines; g++ {
		wg.Add(1)
		go func(g int) {
			defer wg.Done()
			for round := 0; round < 2; round++ {
				for k := g; k < len(cases); k += goroutines {
					c := cases[(k+round*7)%len(cases)]
					gi := (k + round*7) % len(cases)
					if gold[gi].out == "" {
						continue
					}
					h, err := hashOutput(c, round == 1)
					rd := readersDigest(c, gold[gi].data)
					mu.Lock()
					instances += 2
					if err != nil || h != gold[gi].out {
						mismatches++
						fmt.Printf("MISMATCH writer case=%d goroutine=%d round=%d err=%v\n", c.Index, g, round, err)
					}
					if rd != gold[gi].read {
						mismatches++
						fmt.Printf("MISMATCH readers case=%d goroutine=%d round=%d\n", c.Index, g, round)
					}
					mu.Unlock()
				}
			}
		}(g)
	}
	wg.Wait()
	fmt.Printf("DONE instances=%d mismatches=%d cases=%d\n", instances, mismatches, len(cases))
}

func buildRaceBinary(ctx *core.Ctx) (string, error) {
	out := filepath.Join(ctx.BinDir, "verif-race")
	args := []string{"build", "-race", "-tags", "verif", "-o", out}
	if mf := os.Getenv("VERIF_MODFILE"); mf != "" {
		args = append(args, "-modfile="+mf)
	}
	args = append(args, "./cmd/verif")
	cmd := exec.Command("go", args...)
	cmd.Dir = filepath.Join(core.VerifDir, "harness")
	cmd.Env = append(goEnv(), "CGO_ENABLED=1")
	if b, err := cmd.CombinedOutput(); err != nil {
		return "", fmt.Errorf("race build failed: %v\n%s", err, b)
	}
	return out, nil
}

func RunC13(ctx *core.Ctx, rep *core.Report) {
	rep.Rule = "(a) in one process: every seeded (workload, configuration) pair (metadata/channel maps with 8-64 keys, up to hundreds of channels) is written three times (16 cases at a time on separate goroutines) - as given, with every map argument rebuilt in reverse insertion order, and as given again - and the SHA-256 of the outputs compared; " +
		"(b) the same cases are written by child processes under GOMAXPROCS 1, 2, 4 and 16 and the hashes compared across processes (incl. cases with 4 MiB zstd/lz4 chunks); " +
		"(c) a -race build runs 16 goroutines, each with its own independent writers (alternating map orders) and readers (validating lexer, scan, index-based file and log-time order) over distinct workloads for two rounds; every output is compared with golden digests computed sequentially, and the race detector log (GORACE halt_on_error=0 log_path) is scanned for 'WARNING: DATA RACE'. " +
		"distinct_nontrivial counts distinct (shape, configuration) pairs hashed."
	rep.Assumptions = []string{"byte identity is judged through SHA-256", "the race detector only reports races on the interleavings that occurred in this run"}
	// (a)
	n := ctx.Pick(300, 20000)
	core.Parallel(ctx, rep, n, func(i int) {
		c := c13Case(ctx.Seed, i)
		rep.Eval(1)
		a, err1 := hashOutput(c, false)
		b, err2 := hashOutput(c, true)
		a2, err3 := hashOutput(c, false)
		if err1 != nil || err2 != nil || err3 != nil {
			rep.Violate("writer-failed", fmt.Sprintf("%s: writer failed: %v / %v / %v", c.Describe(), err1, err2, err3), c.Witness())
			return
		}
		rep.Distinct(c.Shape.String(), c.K.String())
		rep.Count("in_process_hash_pairs", 1)
		if a != a2 {
			// the very same calls gave different bytes: other instances running in this process interfere, or the writer is not deterministic
			rep.Violate("not-reproducible", fmt.Sprintf("%s: two identical runs in one process (other writers active on other goroutines) gave different output (%s vs %s)", c.Describe(), a[:16], a2[:16]), c.Witness())
		} else if a != b {
			rep.Violate("map-order-dependence", fmt.Sprintf("%s: output differs when the map arguments are built in reverse insertion order (%s vs %s)", c.Describe(), a[:16], b[:16]), c.Witness())
		}
		if i%60 == 0 {
			rep.Sample(map[string]any{"case": i, "shape": c.Shape.String(), "config": c.K.String(), "sha256": a})
		}
		// chunk-level copy of the same content: three times, same bytes each time
		if c.K.Chunked && i%3 == 0 {
			res := drive.RunWriter(c.W, c.K, drive.NewSink(), nil)
			var hs []string
			for k := 0; k < 3; k++ {
				h, chunks, err := chunkCopyHash(c, res.Bytes())
				if err != nil {
					rep.Violate("chunk-copy-failed", fmt.Sprintf("%s: copying the chunks of the file through WriteChunkWithIndexes failed: %v", c.Describe(), err), c.Witness())
					return
				}
				if k == 0 {
					rep.Count("chunk_copy_runs", 1)
					rep.Count("chunks_copied", int64(chunks))
				}
				hs = append(hs, h)
			}
			if hs[0] != hs[1] || hs[0] != hs[2] {
				rep.Violate("not-reproducible", fmt.Sprintf("%s: three identical chunk-level copies (WriteChunkWithIndexes) of the file gave different output (%s %s %s)", c.Describe(), hs[0][:16], hs[1][:16], hs[2][:16]), c.Witness())
			}
		}
	})
	// (b)
	count := ctx.Pick(40, 1000)
	big := ctx.Pick(3, 30)
	hashes := map[int]map[string]string{}
	for _, procs := range []int{1, 2, 4, 16} {
		cmd := exec.Command(ctx.SelfPath, "c13child", strconv.FormatInt(ctx.Seed, 10), "0", strconv.Itoa(count), strconv.Itoa(big))
		cmd.Env = append(os.Environ(), "GOMAXPROCS="+strconv.Itoa(procs))
		out, err := cmd.Output()
		if err != nil {
			rep.Inconclusive(fmt.Sprintf("GOMAXPROCS=%d child failed: %v", procs, err))
			continue
		}
		for _, line := range strings.Split(string(out), "\n") {
			f := strings.Fields(line)
			if len(f) < 3 {
				continue
			}
			idx, _ := strconv.Atoi(f[0])
			if hashes[idx] == nil {
				hashes[idx] = map[string]string{}
			}
			hashes[idx][strconv.Itoa(procs)] = f[1] + " " + f[2]
			rep.Eval(1)
			rep.Count("child_process_hashes", 1)
		}
	}
	for idx, m := range hashes {
		first := ""
		for _, v := range m {
			if first == "" {
				first = v
			}
			if v != first {
				rep.Violate("gomaxprocs-dependence", fmt.Sprintf("case %d: output hash differs across GOMAXPROCS: %v", idx, m), map[string]any{"case": idx})
				break
			}
		}
		if len(m) != 4 {
			rep.Inconclusive(fmt.Sprintf("case %d hashed under %d of 4 GOMAXPROCS settings", idx, len(m)))
		}
	}
	// (c)
	raceBin, err := buildRaceBinary(ctx)
	if err != nil {
		fmt.Println(err)
		rep.Inconclusive("cannot build the -race binary: " + firstLine(err.Error()))
		return
	}
	logDir, err := os.MkdirTemp(ctx.BinDir, "race-")
	if err != nil {
		rep.Inconclusive(err.Error())
		return
	}
	defer os.RemoveAll(logDir)
	perG := ctx.Pick(6, 100)
	cmd := exec.Command(raceBin, "c13race", strconv.FormatInt(ctx.Seed, 10), "16", strconv.Itoa(perG), strconv.Itoa(ctx.Pick(2, 16)))
	cmd.Env = append(os.Environ(), "GORACE=halt_on_error=0 log_path="+filepath.Join(logDir, "race"), "GOMAXPROCS=16")
	out, runErr := cmd.CombinedOutput()
	text := string(out)
	done := false
	for _, line := range strings.Split(text, "\n") {
		if strings.HasPrefix(line, "MISMATCH") {
			rep.Violate("concurrent-instances-interfere", "race stage: "+line, map[string]any{"line": line})
		}
		if strings.HasPrefix(line, "DONE") {
			done = true
			var inst, mis, cs int
			fmt.Sscanf(line, "DONE instances=%d mismatches=%d cases=%d", &inst, &mis, &cs)
			rep.Eval(inst)
			rep.Count("race_stage_concurrent_instances", int64(inst))
			rep.Count("race_stage_cases", int64(cs))
		}
	}
	if !done {
		rep.Inconclusive(fmt.Sprintf("race stage did not finish: %v: %s", runErr, tail(text, 400)))
	}
	races := 0
	logs, _ := filepath.Glob(filepath.Join(logDir, "race*"))
	firstReport := ""
	for _, lf := range logs {
		b, _ := os.ReadFile(lf)
		races += strings.Count(string(b), "WARNING: DATA RACE")
		if firstReport == "" && len(b) > 0 {
			firstReport = string(b)
		}
	}
	races += strings.Count(text, "WARNING: DATA RACE")
	rep.Count("race_detector_reports", int64(races))
	if races > 0 {
		if firstReport == "" {
			firstReport = text
		}
		if len(firstReport) > 3000 {
			firstReport = firstReport[:3000]
		}
		rep.Violate("data-race", fmt.Sprintf("race detector reported %d data race(s) between independent writer/reader instances", races), map[string]any{"report": firstReport})
	}
}
