package mon

import (
	"bytes"
	"fmt"
	"hash/crc32"
	"io"
	"math"
	"sort"

	"github.com/foxglove/mcap/go/mcap"

	"verifharness/core"
	"verifharness/drive"
	"verifharness/refmcap"
)

// expectedStreams derives, from the call log, what a sequential read must return.
type expected struct {
	header      string
	dataRecs    []string // schema/channel/message records in call order
	attachments []string
	attCRC      []uint32
	metadata    []string
	triples     []drive.Triple
}

func expect(c *Case) *expected {
	e := &expected{}
	e.header = "\x01" + string((&refmcap.Header{Profile: c.W.Header.Profile, Library: drive.ExpectedLibrary(c.K, c.W.Header.Library)}).Body())
	schemas := map[uint16]*refmcap.Schema{}
	channels := map[uint16]*refmcap.Channel{}
	for i := range c.W.Ops {
		it := &c.W.Ops[i]
		switch {
		case it.Schema != nil:
			schemas[it.Schema.ID] = it.Schema
			e.dataRecs = append(e.dataRecs, drive.CanonSchemaR(it.Schema))
		case it.Channel != nil:
			channels[it.Channel.ID] = it.Channel
			e.dataRecs = append(e.dataRecs, drive.CanonChannelR(it.Channel))
		case it.Message != nil:
			m := it.Message
			e.dataRecs = append(e.dataRecs, drive.CanonMessageR(m))
			ch := channels[m.ChannelID]
			t := drive.Triple{C: drive.CanonChannelR(ch), M: drive.CanonMessageR(m), S: "nil-schema", Seq: m.Sequence, LogTime: m.LogTime, ChanID: m.ChannelID}
			if ch.SchemaID != 0 {
				t.S = drive.CanonSchemaR(schemas[ch.SchemaID])
			}
			e.triples = append(e.triples, t)
		case it.Attachment != nil:
			e.attachments = append(e.attachments, drive.AttachmentCanon(it.Attachment))
			b := it.Attachment.Body(false)
			e.attCRC = append(e.attCRC, crc32.ChecksumIEEE(b[:len(b)-4]))
		case it.Metadata != nil:
			e.metadata = append(e.metadata, drive.CanonMetadataR(it.Metadata))
		}
	}
	return e
}

func tripleKeys(ts []drive.Triple) []string {
	out := make([]string, len(ts))
	for i, t := range ts {
		out[i] = t.Key()
	}
	return out
}

// dropMaxLogTime removes the triples whose log time is 2^64-1.
func dropMaxLogTime(ts []drive.Triple) ([]drive.Triple, int) {
	var out []drive.Triple
	n := 0
	for _, t := range ts {
		if t.LogTime == math.MaxUint64 {
			n++
			continue
		}
		out = append(out, t)
	}
	return out, n
}

// checkLexerStream compares the lexer's output with the expectation (C01 (i)).
func checkLexerStream(c *Case, e *expected, lr *drive.LexResult, what string) (kind, msg string) {
	if lr.Panic != nil {
		return "lexer-panic", fmt.Sprintf("%s: %s panicked: %v", c.Describe(), what, lr.Panic)
	}
	if lr.Err != io.EOF { //nolint:errorlint
		return "lexer-error", fmt.Sprintf("%s: %s ended with %v instead of io.EOF", c.Describe(), what, lr.Err)
	}
	var data, atts, mds []string
	var attOuts []drive.Out
	section := 0
	for i, o := range lr.Outs {
		if i == 0 {
			if o.Canon != e.header {
				return "header-mismatch", fmt.Sprintf("%s: %s header %s, want %s", c.Describe(), what, drive.Describe(o.Canon), drive.Describe(e.header))
			}
			continue
		}
		if o.Op == refmcap.OpDataEnd {
			section = 1
			continue
		}
		if section == 1 {
			if o.Op == refmcap.OpMessage || o.Op == refmcap.OpAttachment || o.Op == refmcap.OpMetadata {
				return "record-after-dataend", fmt.Sprintf("%s: %s yielded %s after DataEnd", c.Describe(), what, refmcap.OpName(o.Op))
			}
			continue
		}
		switch o.Op {
		case refmcap.OpSchema, refmcap.OpChannel, refmcap.OpMessage:
			data = append(data, o.Canon)
		case refmcap.OpAttachment:
			atts = append(atts, o.Canon)
			attOuts = append(attOuts, o)
		case refmcap.OpMetadata:
			mds = append(mds, o.Canon)
		case refmcap.OpHeader:
			return "second-header", fmt.Sprintf("%s: %s yielded a second header", c.Describe(), what)
		}
	}
	if section != 1 {
		return "no-dataend", fmt.Sprintf("%s: %s never yielded DataEnd", c.Describe(), what)
	}
	if d := firstDiff(e.dataRecs, data); d != "" {
		return "lexer-records", fmt.Sprintf("%s: %s schema/channel/message stream differs from what was written: %s", c.Describe(), what, d)
	}
	if d := firstDiff(e.attachments, atts); d != "" {
		return "lexer-attachments", fmt.Sprintf("%s: %s attachments differ: %s", c.Describe(), what, d)
	}
	if d := firstDiff(e.metadata, mds); d != "" {
		return "lexer-metadata", fmt.Sprintf("%s: %s metadata differ: %s", c.Describe(), what, d)
	}
	for i, o := range attOuts {
		if o.AttReadErr != nil || o.CRCErr != nil {
			return "attachment-read", fmt.Sprintf("%s: %s attachment %d: read error %v / crc error %v", c.Describe(), what, i, o.AttReadErr, o.CRCErr)
		}
		if o.ParsedCRC != e.attCRC[i] || o.ComputedCRC != o.ParsedCRC {
			return "attachment-crc", fmt.Sprintf("%s: %s attachment %d: stored crc %08x computed %08x, CRC-32 of the spec range is %08x", c.Describe(), what, i, o.ParsedCRC, o.ComputedCRC, e.attCRC[i])
		}
	}
	if a := lr.AliasingProblem(); a != "" {
		return "lexer-aliasing", fmt.Sprintf("%s: %s: %s", c.Describe(), what, a)
	}
	return "", ""
}

// checkTriples compares an iterator's output with the expectation (C01 (ii)/(iii)).
func checkTriples(c *Case, want []drive.Triple, ir *drive.IterResult, what string) (kind, msg string) {
	if err := ir.Failed(); err != nil {
		k := "iterator-error"
		if ir.Panic != nil {
			k = "iterator-panic"
		}
		return k, fmt.Sprintf("%s: %s failed: %v (after %d messages)", c.Describe(), what, err, len(ir.Triples))
	}
	if d := firstDiff(tripleKeys(want), tripleKeys(ir.Triples)); d != "" {
		// recognise the specific recorded defect: messages with log time 2^64-1 are dropped and nothing else differs
		if reduced, n := dropMaxLogTime(want); n > 0 && eqStrings(tripleKeys(reduced), tripleKeys(ir.Triples)) {
			return "logtime-max-dropped", fmt.Sprintf("%s: %s dropped %d message(s) whose log time is 2^64-1", c.Describe(), what, n)
		}
		return "iterator-messages", fmt.Sprintf("%s: %s returned different (schema,channel,message) triples: %s", c.Describe(), what, d)
	}
	if a := ir.AliasingProblem(); a != "" {
		return "iterator-aliasing", fmt.Sprintf("%s: %s: %s", c.Describe(), what, a)
	}
	return "", ""
}

// RunC01: write then sequential read returns exactly what was written.
func RunC01(ctx *core.Ctx, rep *core.Report) {
	rep.Level = "exploration"
	rep.Rule = "seeded (workload, writer configuration) pairs: legal call sequences with boundary field values (ids 0/65535, timestamps 0..2^64-1, empty/large/non-UTF-8 strings, payloads 0..300 KiB, up to 700 channels) x chunking/compression/CRC/ten flags; thorough adds the full 1024-flag x 5-container cross product. " +
		"Each pair is written by the real Writer and read back by the lexer (with the matching options, validation on and off) and by the non-indexed iterator through NextInto(nil), Next(nil) and NextInto(reused). " +
		"distinct_nontrivial counts distinct (shape, configuration) pairs with at least one message and two record kinds."
	rep.Assumptions = []string{"the call log recorded by the harness driver is the ground truth", "custom compression is exercised through the lexer only (Reader has no decompressor option)", "for SkipMagic files the iterator is given the output prefixed with the magic, as the Reader cannot skip it"}
	n, cross := writeFamilyCases(ctx, 3000, 100000)
	core.Parallel(ctx, rep, n+cross, func(i int) {
		c := caseAt(ctx, "write", i, n)
		rep.Eval(1)
		checkC01Case(c, rep)
	})
}

func checkC01Case(c *Case, rep *core.Report) {
	res := writeClean(c, rep)
	if res == nil {
		return
	}
	data := res.Bytes()
	e := expect(c)
	_, _, nm, _, _ := c.W.Counts()
	if nm > 0 && c.W.Kinds() >= 2 {
		rep.Distinct(c.Shape.String(), c.K.String())
	}
	rep.Count("bytes_written", int64(len(data)))
	rep.Count("messages_written", int64(nm))
	if c.Index%500 == 0 {
		rep.Sample(map[string]any{"case": c.Index, "shape": c.Shape.String(), "config": c.K.String(), "ops": len(c.W.Ops), "file_bytes": len(data)})
	}
	custom := c.K.Chunked && c.K.Compression == "custom"
	for _, validate := range []bool{false, true} {
		lr := drive.Lex(bytes.NewReader(data), drive.LexOpts{SkipMagic: c.K.SkipMagic, Validate: validate, ComputeAttCRC: true, Custom: custom, KeepRaw: true})
		rep.Count("lexer_records_compared", int64(len(lr.Outs)))
		if kind, msg := checkLexerStream(c, e, lr, fmt.Sprintf("lexer(validate=%v)", validate)); kind != "" {
			rep.Violate(kind, msg, c.Witness())
			return
		}
	}
	if custom {
		rep.Count("custom_compression_lexer_only", 1)
		return
	}
	rd := withMagic(c, data)
	for _, mode := range []drive.NextMode{drive.NextIntoNil, drive.NextNil, drive.NextIntoReused} {
		var md []string
		ir := drive.ReadMessages(bytes.NewReader(rd), drive.IterOpts{Opts: []mcap.ReadOpt{mcap.UsingIndex(false)}, Mode: mode, MetadataCB: mode == drive.NextIntoNil})
		rep.Count("iterator_triples_compared", int64(len(ir.Triples)))
		if kind, msg := checkTriples(c, e.triples, ir, fmt.Sprintf("Messages(UsingIndex(false)) mode %d", mode)); kind != "" {
			rep.Violate(kind, msg, c.Witness())
			return
		}
		md = ir.Metadata
		if mode == drive.NextIntoNil {
			if d := firstDiff(e.metadata, md); d != "" {
				rep.Violate("iterator-metadata-callback", fmt.Sprintf("%s: metadata callback of the sequential read: %s", c.Describe(), d), c.Witness())
				return
			}
		}
	}
	// the same sequential read with messages skipped in between (every other message's topic, from the
	// median log time on): what is returned is still exactly what was written, and stays unaltered
	if len(e.triples) >= 2 {
		topicOf := map[uint16]string{}
		for k := range c.W.Ops {
			if ch := c.W.Ops[k].Channel; ch != nil {
				topicOf[ch.ID] = ch.Topic
			}
		}
		seen := map[string]bool{}
		var topics []string
		for k := 0; k < len(e.triples); k += 2 {
			if t := topicOf[e.triples[k].ChanID]; !seen[t] {
				seen[t] = true
				topics = append(topics, t)
			}
		}
		times := make([]uint64, len(e.triples))
		for k := range e.triples {
			times[k] = e.triples[k].LogTime
		}
		sort.Slice(times, func(a, b int) bool { return times[a] < times[b] })
		start := times[len(times)/2]
		want := selectTriples(e.triples, topicOf, topics, start, 0, true)
		for _, mode := range []drive.NextMode{drive.NextIntoNil, drive.NextNil} {
			ir := drive.ReadMessages(bytes.NewReader(rd), drive.IterOpts{Opts: []mcap.ReadOpt{mcap.UsingIndex(false), mcap.WithTopics(topics), mcap.AfterNanos(start)}, Mode: mode})
			rep.Count("filtered_iterator_triples_compared", int64(len(ir.Triples)))
			if kind, msg := checkTriples(c, want, ir, fmt.Sprintf("Messages(UsingIndex(false), WithTopics(%d topics), AfterNanos(%d)) mode %d", len(topics), start, mode)); kind != "" {
				rep.Violate(kind, msg, c.Witness())
				return
			}
		}
	}
}
