package mon

import (
	"bytes"
	"fmt"
	"io"
	"sort"
	"strings"

	"github.com/foxglove/mcap/go/mcap"

	"verifharness/core"
	"verifharness/drive"
	"verifharness/gen"
	"verifharness/iofault"
	"verifharness/refmcap"
)

// lexerTriples binds each message token to the latest channel/schema tokens, as a consumer of the
// lexer would, and returns the (schema, channel, message) triples plus attachments and metadata.
func lexerTriples(lr *drive.LexResult) (header string, triples []drive.Triple, atts, mds []string, problem string) {
	schemas := map[uint16]string{}
	chanCanon := map[uint16]string{}
	chanSchema := map[uint16]uint16{}
	dataEnd := false
	for i, o := range lr.Outs {
		if i == 0 && o.Op == refmcap.OpHeader {
			header = o.Canon
			continue
		}
		switch o.Op {
		case refmcap.OpDataEnd:
			dataEnd = true
		case refmcap.OpSchema:
			p, _, err := refmcap.ParseBody(refmcap.OpSchema, []byte(o.Canon[1:]))
			if err == nil {
				schemas[p.(*refmcap.Schema).ID] = o.Canon
			}
		case refmcap.OpChannel:
			p, _, err := refmcap.ParseBody(refmcap.OpChannel, []byte(o.Canon[1:]))
			if err == nil {
				c := p.(*refmcap.Channel)
				chanCanon[c.ID] = o.Canon
				chanSchema[c.ID] = c.SchemaID
			}
		case refmcap.OpMessage:
			if dataEnd {
				problem = "message token after DataEnd"
				return
			}
			p, _, err := refmcap.ParseBody(refmcap.OpMessage, []byte(o.Canon[1:]))
			if err != nil {
				problem = "unparsable message token"
				return
			}
			m := p.(*refmcap.Message)
			cc, ok := chanCanon[m.ChannelID]
			if !ok {
				problem = fmt.Sprintf("message seq %d on channel %d before any channel record", m.Sequence, m.ChannelID)
				return
			}
			t := drive.Triple{C: cc, M: o.Canon, S: "nil-schema", Seq: m.Sequence, LogTime: m.LogTime, ChanID: m.ChannelID}
			if sid := chanSchema[m.ChannelID]; sid != 0 {
				sc, ok := schemas[sid]
				if !ok {
					problem = fmt.Sprintf("channel %d refers to schema %d never seen", m.ChannelID, sid)
					return
				}
				t.S = sc
			}
			triples = append(triples, t)
		case refmcap.OpAttachment:
			atts = append(atts, o.Canon)
		case refmcap.OpMetadata:
			mds = append(mds, o.Canon)
		}
	}
	return
}

type layoutCase struct {
	c      *Case
	l      Layout
	plan   *refmcap.Plan
	data   []byte
	where  map[uint32]msgPos
	chunks int
}

func buildLayoutCase(c *Case, l Layout) (*layoutCase, error) {
	lc := &layoutCase{c: c, l: l}
	lc.plan = BuildPlan(c.W, l)
	enc, err := refmcap.Encode(lc.plan)
	if err != nil {
		return nil, err
	}
	lc.data = enc.Bytes
	lc.chunks = len(enc.Chunks)
	f, err := refmcap.Decode(lc.data, &refmcap.DecodeOptions{Custom: drive.RefCustom})
	if err != nil {
		return nil, fmt.Errorf("reference decoder rejects reference encoder output: %w", err)
	}
	if probs := refmcap.Validate(f, refmcap.Expect{}); len(probs) > 0 {
		return nil, fmt.Errorf("reference encoder output is not spec-valid: %v", probs[0])
	}
	lc.where = positions(f)
	return lc, nil
}

func summaryIndex(order []byte, op byte) int {
	for i, o := range order {
		if o == op {
			return i
		}
	}
	return -1
}

func (lc *layoutCase) indexedLayout() bool {
	return lc.l.Chunked && lc.chunks > 0 && summaryIndex(lc.l.SummaryOrder, refmcap.OpSchema) >= 0 && summaryIndex(lc.l.SummaryOrder, refmcap.OpChannel) >= 0 && summaryIndex(lc.l.SummaryOrder, refmcap.OpChunkIndex) >= 0
}

// chunkIndexBeforeChannels recognises the recorded summary-order defect's trigger.
func (lc *layoutCase) chunkIndexBeforeChannels() bool {
	ci, ch := summaryIndex(lc.l.SummaryOrder, refmcap.OpChunkIndex), summaryIndex(lc.l.SummaryOrder, refmcap.OpChannel)
	return ci >= 0 && ch >= 0 && ci < ch && lc.l.Midx != refmcap.MidxNone
}

// checkLayout compares everything the Go readers report for one layout with the logical content.
func checkLayout(lc *layoutCase, e *expected, rep *core.Report, witness map[string]any) bool {
	c := lc.c
	desc := fmt.Sprintf("%s layout{%s}", c.Describe(), lc.l)
	fail := func(kind, format string, a ...any) bool {
		rep.Violate(kind, desc+": "+fmt.Sprintf(format, a...), witness)
		return false
	}
	// lexer
	for _, validate := range []bool{false, true} {
		// the source yields the processor before every Read: a decompressor that reads ahead on a goroutine
		// of its own then really runs concurrently with the lexer, whatever the machine is doing
		lr := drive.Lex(iofault.Yielding{R: bytes.NewReader(lc.data)}, drive.LexOpts{Validate: validate, ComputeAttCRC: true})
		if lr.Panic != nil {
			return fail("lexer-panic", "lexer(validate=%v) panicked: %v", validate, lr.Panic)
		}
		if lr.Err != io.EOF { //nolint:errorlint
			return fail("lexer-error", "lexer(validate=%v) ended with %v", validate, lr.Err)
		}
		h, ts, atts, mds, problem := lexerTriples(lr)
		if problem != "" {
			return fail("lexer-binding", "lexer(validate=%v): %s", validate, problem)
		}
		wantHeader := "\x01" + string((&refmcap.Header{Profile: c.W.Header.Profile, Library: c.W.Header.Library}).Body())
		if h != wantHeader {
			return fail("lexer-header", "header differs")
		}
		if d := firstDiff(tripleKeys(e.triples), tripleKeys(ts)); d != "" {
			return fail("lexer-messages", "lexer(validate=%v) message triples differ from the content: %s", validate, d)
		}
		if d := firstDiff(e.attachments, atts); d != "" {
			return fail("lexer-attachments", "attachments differ: %s", d)
		}
		if d := firstDiff(e.metadata, mds); d != "" {
			return fail("lexer-metadata", "metadata differ: %s", d)
		}
	}
	// sequential iterator
	ir := drive.ReadMessages(bytes.NewReader(lc.data), drive.IterOpts{Opts: []mcap.ReadOpt{mcap.UsingIndex(false)}})
	if kind, msg := checkTriples(c, e.triples, ir, "sequential iterator"); kind != "" {
		return fail("sequential-"+kind, "%s", msg)
	}
	// index-based iterator
	indexed := lc.indexedLayout()
	for _, v := range indexedVariants() {
		ir := drive.ReadMessages(bytes.NewReader(lc.data), drive.IterOpts{Opts: v.opts})
		rep.Count("indexed_reads", 1)
		if ir.Panic != nil {
			return fail("indexed-panic", "%s panicked: %v", v.name, ir.Panic)
		}
		if err := ir.Failed(); err != nil {
			if !indexed {
				continue // fall-back-or-error clause of C02
			}
			if lc.chunkIndexBeforeChannels() && strings.Contains(err.Error(), "no index available") {
				return fail("summary-order-chunk-index-before-channels", "%s fails with %q although the file is fully indexed (chunk index group precedes the channel group)", v.name, err)
			}
			return fail("indexed-error", "%s failed on an indexed layout: %v", v.name, err)
		}
		var same bool
		if v.order == mcap.FileOrder {
			same = eqStrings(tripleKeys(e.triples), tripleKeys(ir.Triples))
		} else {
			same = eqStrings(sortedKeys(e.triples), sortedKeys(ir.Triples))
		}
		if !same {
			if reduced, n := dropMaxLogTime(e.triples); n > 0 && eqStrings(sortedKeys(reduced), sortedKeys(ir.Triples)) {
				return fail("logtime-max-dropped", "%s dropped %d message(s) at log time 2^64-1", v.name, n)
			}
			if lc.chunkIndexBeforeChannels() && len(ir.Triples) < len(e.triples) {
				return fail("summary-order-chunk-index-before-channels", "%s silently returned %d of %d messages (chunk index group precedes the channel group, so chunk indexes were filtered against channels not yet read)", v.name, len(ir.Triples), len(e.triples))
			}
			return fail("indexed-messages", "%s returned %d messages, content has %d: %s", v.name, len(ir.Triples), len(e.triples), firstDiff(tripleKeys(e.triples), tripleKeys(ir.Triples)))
		}
		if v.order != mcap.FileOrder {
			if p := orderProblem(ir.Triples, v.order, lc.where); p != "" {
				return fail("indexed-order", "%s: %s", v.name, p)
			}
		}
	}
	if indexed {
		ia, ib := drive.InterleavedRead(bytes.NewReader(lc.data), []mcap.ReadOpt{mcap.UsingIndex(true)}, []mcap.ReadOpt{mcap.InOrder(mcap.ReverseLogTimeOrder)}, true)
		if ia.Failed() != nil || ib.Failed() != nil {
			return fail("interleaved-read-error", "two iterators of one Reader consumed alternately: %v / %v", ia.Failed(), ib.Failed())
		}
		if !eqStrings(tripleKeys(e.triples), tripleKeys(ia.Triples)) || !eqStrings(sortedKeys(e.triples), sortedKeys(ib.Triples)) {
			return fail("interleaved-read-differs", "two iterators of one Reader consumed alternately return %d and %d messages, content has %d", len(ia.Triples), len(ib.Triples), len(e.triples))
		}
	}
	// Info
	var info *mcap.Info
	var ierr error
	var raProblem string
	p := core.Safe(func() {
		r, err := mcap.NewReader(bytes.NewReader(lc.data))
		if err != nil {
			ierr = err
			return
		}
		defer r.Close()
		info, ierr = r.Info()
		if ierr != nil {
			return
		}
		for i, ai := range info.AttachmentIndexes {
			ar, err := r.GetAttachmentReader(ai.Offset)
			if err != nil {
				raProblem = fmt.Sprintf("GetAttachmentReader(entry %d): %v", i, err)
				return
			}
			d, err := io.ReadAll(ar.Data())
			if err != nil {
				raProblem = fmt.Sprintf("attachment %d data: %v", i, err)
				return
			}
			got := drive.AttachmentCanon(&refmcap.Attachment{LogTime: ar.LogTime, CreateTime: ar.CreateTime, Name: ar.Name, MediaType: ar.MediaType, Data: d})
			if i >= len(e.attachments) || got != e.attachments[i] {
				raProblem = fmt.Sprintf("attachment via index entry %d differs from the content", i)
				return
			}
		}
		for i, mi := range info.MetadataIndexes {
			md, err := r.GetMetadata(mi.Offset)
			if err != nil {
				raProblem = fmt.Sprintf("GetMetadata(entry %d): %v", i, err)
				return
			}
			if i >= len(e.metadata) || drive.CanonMetadata(md) != e.metadata[i] {
				raProblem = fmt.Sprintf("metadata via index entry %d differs from the content", i)
				return
			}
		}
	})
	if p != nil {
		return fail("info-panic", "Info/random access panicked: %v", p)
	}
	if ierr != nil {
		return fail("info-error", "Info failed: %v", ierr)
	}
	if raProblem != "" {
		return fail("random-access", "%s", raProblem)
	}
	has := func(op byte) bool { return summaryIndex(lc.l.SummaryOrder, op) >= 0 }
	schemas, channels := c.W.SchemaByID(), c.W.ChannelByID()
	if has(refmcap.OpSchema) {
		if len(info.Schemas) != len(schemas) {
			return fail("info-schemas", "Info lists %d schemas, content has %d", len(info.Schemas), len(schemas))
		}
		for id, s := range schemas {
			if g, ok := info.Schemas[id]; !ok || drive.CanonSchema(g) != drive.CanonSchemaR(s) {
				return fail("info-schemas", "Info.Schemas[%d] differs from the content", id)
			}
		}
	}
	if has(refmcap.OpChannel) {
		if len(info.Channels) != len(channels) {
			return fail("info-channels", "Info lists %d channels, content has %d", len(info.Channels), len(channels))
		}
		for id, ch := range channels {
			if g, ok := info.Channels[id]; !ok || drive.CanonChannel(g) != drive.CanonChannelR(ch) {
				return fail("info-channels", "Info.Channels[%d] differs from the content", id)
			}
		}
	}
	if has(refmcap.OpChunkIndex) && len(info.ChunkIndexes) != lc.chunks {
		kind := "info-chunk-indexes"
		if lc.chunkIndexBeforeChannels() && len(info.ChunkIndexes) < lc.chunks {
			kind = "summary-order-chunk-index-before-channels"
		} else if !has(refmcap.OpChannel) && lc.l.Midx != refmcap.MidxNone && len(info.ChunkIndexes) < lc.chunks {
			kind = "info-chunk-indexes-pruned-without-channels"
		}
		return fail(kind, "Info lists %d chunk indexes, the file has %d chunks with chunk index records", len(info.ChunkIndexes), lc.chunks)
	}
	if has(refmcap.OpAttachmentIndex) && len(info.AttachmentIndexes) != len(e.attachments) {
		return fail("info-attachment-indexes", "Info lists %d attachment indexes, content has %d attachments", len(info.AttachmentIndexes), len(e.attachments))
	}
	if has(refmcap.OpMetadataIndex) && len(info.MetadataIndexes) != len(e.metadata) {
		return fail("info-metadata-indexes", "Info lists %d metadata indexes, content has %d metadata records", len(info.MetadataIndexes), len(e.metadata))
	}
	if has(refmcap.OpStatistics) {
		want := &refmcap.Aggregates{SchemaIDs: map[uint16]bool{}, ChannelIDs: map[uint16]bool{}, ChannelCounts: map[uint16]uint64{}}
		for id := range schemas {
			want.SchemaIDs[id] = true
		}
		for id := range channels {
			want.ChannelIDs[id] = true
		}
		for _, t := range e.triples {
			if want.MessageCount == 0 || t.LogTime < want.MessageStartTime {
				want.MessageStartTime = t.LogTime
			}
			if want.MessageCount == 0 || t.LogTime > want.MessageEndTime {
				want.MessageEndTime = t.LogTime
			}
			want.MessageCount++
			if !lc.l.EmptyCMC {
				want.ChannelCounts[t.ChanID]++
			}
		}
		want.AttachmentCount = uint32(len(e.attachments))
		want.MetadataCount = uint32(len(e.metadata))
		want.ChunkCount = uint32(lc.chunks)
		if kind, msg := statsMismatch("Info.Statistics", info.Statistics, want, false); kind != "" {
			return fail("info-"+kind, "%s", msg)
		}
	}
	return true
}

// ---- layout enumeration

func c12Content(ctx *core.Ctx, i int) *Case {
	r := gen.Rng(ctx.Seed, "c12", i)
	c := &Case{Index: i, Seed: ctx.Seed}
	c.Class = 0
	if r.Intn(4) == 0 {
		c.Class = 1
	}
	c.Shape = gen.RandShape(r, c.Class)
	if c.Shape.Channels == 0 {
		c.Shape.Channels = 1
	}
	if c.Shape.Messages == 0 {
		c.Shape.Messages = 1 + r.Intn(6)
	}
	c.W = gen.RandWorkload(r, c.Shape)
	return c
}

// smallContent is the fixed 6-message content used for the exhaustive partitions and permutations.
func smallContent(ctx *core.Ctx, variant int) *Case {
	r := gen.Rng(ctx.Seed, "c12small", variant)
	c := &Case{Index: 4_000_000 + variant, Seed: ctx.Seed}
	c.Shape = gen.Shape{Schemas: 2, Channels: 3, Messages: 6, Attachments: 1, Metadata: 1, MaxPayload: 12, MaxLongStr: 10, ManyMapKeys: 2, TimeMode: []string{"smallrand", "ties", "desc", "zerofirst"}[variant%4]}
	c.W = gen.RandWorkload(r, c.Shape)
	return c
}

func permutations(ops []byte) [][]byte {
	if len(ops) <= 1 {
		return [][]byte{append([]byte(nil), ops...)}
	}
	var out [][]byte
	for i := range ops {
		rest := append(append([]byte(nil), ops[:i]...), ops[i+1:]...)
		for _, p := range permutations(rest) {
			out = append(out, append([]byte{ops[i]}, p...))
		}
	}
	return out
}

func fixEmptyCMC(l *Layout) {
	si, ci := summaryIndex(l.SummaryOrder, refmcap.OpStatistics), summaryIndex(l.SummaryOrder, refmcap.OpChannel)
	l.EmptyCMC = si >= 0 && (ci < 0 || si < ci)
}

func runLayout(c *Case, l Layout, e *expected, rep *core.Report, tag string) {
	witness := c.Witness()
	witness["layout"] = l
	witness["tag"] = tag
	lc, err := buildLayoutCase(c, l)
	if err != nil {
		rep.Inconclusive(fmt.Sprintf("%s layout{%s}: %v", c.Describe(), l, err))
		return
	}
	rep.Eval(1)
	rep.Distinct(c.Index, l.String())
	rep.Count("layouts_"+tag, 1)
	if lc.indexedLayout() {
		rep.Count("indexed_layouts", 1)
	}
	core.NotePattern(rep, "summary_orders", fmt.Sprintf("%x", l.SummaryOrder))
	checkLayout(lc, e, rep, witness)
}

func RunC12(ctx *core.Ctx, rep *core.Report) {
	rep.Rule = "one logical content, many layouts from the reference encoder (each verified spec-valid by the reference validator before use): exhaustively every partition of a 6-message content into chunks (32 cut sets) x 4 schema/channel placements x 3 empty-chunk modes, every permutation of the six summary groups (720), " +
		"and seeded random layouts of random contents (per-chunk compression none/zstd/lz4, message-index modes, optional sections and CRCs on/off, attachment placement). Oracle: lexer stream (bound to channels/schemas), sequential iterator, index-based iterator in three orders (indexed layouts), Info and random access, all compared with the logical content. " +
		"distinct_nontrivial counts distinct (content, layout) pairs."
	rep.Assumptions = []string{"the reference encoder's output is spec-valid (checked per file by the reference validator; pinned by C17)", "statistics placed ahead of the channel group carry an empty channel_message_counts map, as the spec requires"}
	type job struct {
		c   *Case
		l   Layout
		tag string
	}
	var jobs []job
	nSmall := ctx.Pick(1, 6)
	for v := 0; v < nSmall; v++ {
		c := smallContent(ctx, v)
		full := append([]byte(nil), allSummaryOps...)
		for cuts := 0; cuts < 32; cuts++ {
			for place := 0; place < 4; place++ {
				for empty := 0; empty < 3; empty++ {
					l := Layout{Chunked: true, Cuts: make([]bool, 6), Placement: place, EmptyChunks: empty, Compressions: []string{[]string{"", "zstd", "lz4"}[(cuts+place)%3]},
						Midx: refmcap.MidxMessages, SummaryOrder: full, Offsets: true, CloseChunkAtAttachment: cuts%2 == 0}
					for b := 0; b < 5; b++ {
						l.Cuts[b+1] = cuts&(1<<b) != 0
					}
					jobs = append(jobs, job{c, l, "partition"})
				}
			}
		}
		for place := 0; place < 4; place++ {
			jobs = append(jobs, job{c, Layout{Chunked: false, Placement: place, SummaryOrder: full, Offsets: true}, "unchunked"})
		}
		for pi, perm := range permutations(allSummaryOps) {
			l := Layout{Chunked: true, Cuts: []bool{false, false, true, false, true, false}, Compressions: []string{""}, Midx: refmcap.MidxMode(1 + pi%2), SummaryOrder: perm, Offsets: pi%3 != 0, Placement: pi % 4}
			fixEmptyCMC(&l)
			jobs = append(jobs, job{c, l, "permutation"})
		}
	}
	nRand := ctx.Pick(400, 60000)
	for i := 0; i < nRand; i++ {
		jobs = append(jobs, job{nil, Layout{}, "random"})
	}
	base := len(jobs) - nRand
	core.Parallel(ctx, rep, len(jobs), func(k int) {
		j := jobs[k]
		if j.tag == "random" {
			i := k - base
			c := c12Content(ctx, i/4) // four layouts per content
			r := gen.Rng(ctx.Seed, "c12l", i)
			_, _, nm, _, _ := c.W.Counts()
			l := RandLayout(r, nm, i%2 == 0)
			runLayout(c, l, expect(c), rep, "random")
			if i%100 == 0 {
				rep.Sample(map[string]any{"content": c.Shape.String(), "layout": l.String()})
			}
			return
		}
		runLayout(j.c, j.l, expect(j.c), rep, j.tag)
	})
}

func sortStrings(s []string) []string {
	out := append([]string(nil), s...)
	sort.Strings(out)
	return out
}
