// Command verif runs one property's monitor: verif <ID> <quick|thorough> [--replay file]
package main

import (
	"encoding/json"
	"fmt"
	"os"
	"path/filepath"
	"runtime"

	"verifharness/core"
	"verifharness/mon"
)

func repoDir() string {
	if d := os.Getenv("VERIF_REPO"); d != "" {
		return d
	}
	return "/repo"
}

func main() {
	if len(os.Args) >= 2 {
		switch os.Args[1] {
		case "worker":
			mon.WorkerMain(os.Args[2:])
			return
		case "c13child":
			mon.C13Child(os.Args[2:])
			return
		case "c13race":
			mon.C13Race(os.Args[2:])
			return
		}
	}
	if len(os.Args) < 3 {
		fmt.Fprintln(os.Stderr, "usage: verif <ID> <quick|thorough> [--replay file]")
		os.Exit(3)
	}
	self, _ := os.Executable()
	ctx := &core.Ctx{Prop: os.Args[1], Tier: os.Args[2], Seed: core.EnvSeed(), RepoDir: repoDir(), Workers: runtime.NumCPU(), SelfPath: self, BinDir: filepath.Dir(self)}
	if ctx.Tier != "quick" && ctx.Tier != "thorough" {
		fmt.Fprintln(os.Stderr, "tier must be quick or thorough")
		os.Exit(3)
	}
	for i := 3; i < len(os.Args); i++ {
		if os.Args[i] == "--replay" && i+1 < len(os.Args) {
			ctx.Replay = os.Args[i+1]
			i++
		}
	}
	m, ok := mon.Registry[ctx.Prop]
	if !ok {
		fmt.Fprintln(os.Stderr, "unknown property", ctx.Prop)
		os.Exit(3)
	}
	rep := core.NewReport(ctx)
	if ctx.Replay != "" {
		b, err := os.ReadFile(ctx.Replay)
		if err != nil {
			fmt.Fprintln(os.Stderr, err)
			os.Exit(3)
		}
		var w struct {
			Seed    int64          `json:"seed"`
			Tier    string         `json:"tier"`
			Witness map[string]any `json:"witness"`
		}
		if err := json.Unmarshal(b, &w); err != nil {
			fmt.Fprintln(os.Stderr, err)
			os.Exit(3)
		}
		ctx.Seed = w.Seed
		if w.Tier != "" {
			ctx.Tier = w.Tier
		}
		if m.Replay == nil {
			fmt.Fprintln(os.Stderr, "no replay support for", ctx.Prop)
			os.Exit(3)
		}
		rep.MinDistinct = 0
		m.Replay(ctx, rep, w.Witness)
		os.Exit(rep.Finish())
	}
	m.Run(ctx, rep)
	os.Exit(rep.Finish())
}
