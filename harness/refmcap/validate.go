package refmcap

import (
	"bytes"
	"fmt"
	"hash/crc32"
	"sort"
)

// Tri is a three-valued expectation.
type Tri int

const (
	Auto Tri = iota // infer from the file: a group that is present must be complete
	Yes
	No
)

// Expect states which optional parts the producer was configured to emit.
type Expect struct {
	SkipMagic         bool
	MessageIndexes    Tri
	ChunkIndexes      Tri
	AttachmentIndexes Tri
	MetadataIndexes   Tri
	Statistics        Tri
	RepeatedSchemas   Tri
	RepeatedChannels  Tri
	SummaryOffsets    Tri
	CRC               Tri     // Yes: all CRC fields populated; No: data/summary/chunk CRC fields are zero
	Compression       *string // when non-nil every chunk must use exactly this compression
	AllowUnknown      bool    // tolerate unknown opcodes (reference-encoder output for C11)
	MessagesInChunks  Tri     // Yes: no top-level message records
}

// Problem is one discrepancy. Class is "grammar", "pointer" (both C05) or "crc" (C06).
type Problem struct {
	Class string
	Msg   string
}

func (p Problem) String() string { return p.Class + ": " + p.Msg }

type probs struct{ list []Problem }

func (p *probs) add(class, format string, a ...any) {
	if len(p.list) < 50 {
		p.list = append(p.list, Problem{class, fmt.Sprintf(format, a...)})
	}
}

func isDataOp(op byte) bool {
	switch op {
	case OpSchema, OpChannel, OpMessage, OpAttachment, OpChunk, OpMessageIndex, OpMetadata:
		return true
	}
	return false
}

func isSummaryOp(op byte) bool {
	switch op {
	case OpSchema, OpChannel, OpChunkIndex, OpAttachmentIndex, OpMetadataIndex, OpStatistics:
		return true
	}
	return false
}

func known(op byte) bool { return op >= 1 && op <= 0x0F }

func schemaEq(a, b *Schema) bool {
	return a.ID == b.ID && a.Name == b.Name && a.Encoding == b.Encoding && bytes.Equal(a.Data, b.Data)
}

func kvEq(a, b []KV) bool {
	if len(a) != len(b) {
		return false
	}
	am := map[string]string{}
	for _, e := range a {
		am[e.K] = e.V
	}
	if len(am) != len(a) {
		return false
	}
	for _, e := range b {
		if v, ok := am[e.K]; !ok || v != e.V {
			return false
		}
	}
	return true
}

func channelEq(a, b *Channel) bool {
	return a.ID == b.ID && a.SchemaID == b.SchemaID && a.Topic == b.Topic && a.MessageEncoding == b.MessageEncoding && kvEq(a.Metadata, b.Metadata)
}

// Validate checks grammar, every pointer/size/time field and every CRC of a decoded file.
func Validate(f *File, ex Expect) []Problem {
	p := &probs{}
	recs := f.Recs
	if len(recs) == 0 {
		p.add("grammar", "no records")
		return p.list
	}
	for _, r := range recs {
		if r.ParseErr != nil {
			p.add("grammar", "%s at %d: body does not parse: %v", OpName(r.Op), r.Off, r.ParseErr)
		}
		if !known(r.Op) && !ex.AllowUnknown {
			p.add("grammar", "unknown opcode 0x%02x at %d", r.Op, r.Off)
		}
		if r.Op == 0 {
			p.add("grammar", "zero opcode at %d", r.Off)
		}
	}
	if len(p.list) > 0 {
		return p.list
	}
	if recs[0].Op != OpHeader {
		p.add("grammar", "first record is %s, not Header", OpName(recs[0].Op))
	}
	last := recs[len(recs)-1]
	if last.Op != OpFooter {
		p.add("grammar", "last record is %s, not Footer", OpName(last.Op))
		return p.list
	}
	if last.End() != len(f.Data)-8 {
		p.add("grammar", "footer does not end at trailing magic")
	}
	if last.Len != 9+20 {
		p.add("grammar", "footer length %d", last.Len)
	}
	if f.DataEndIdx < 0 {
		p.add("grammar", "no DataEnd record")
		return p.list
	}
	// section membership
	nHeader, nDataEnd, nFooter := 0, 0, 0
	for i, r := range recs {
		switch r.Op {
		case OpHeader:
			nHeader++
			if i != 0 {
				p.add("grammar", "Header at position %d", i)
			}
			continue
		case OpDataEnd:
			nDataEnd++
			continue
		case OpFooter:
			nFooter++
			if i != len(recs)-1 {
				p.add("grammar", "Footer at position %d of %d", i, len(recs))
			}
			continue
		}
		if !known(r.Op) {
			continue
		}
		if i < f.DataEndIdx {
			if !isDataOp(r.Op) {
				p.add("grammar", "%s at %d in the data section", OpName(r.Op), r.Off)
			}
		} else {
			if !isSummaryOp(r.Op) && r.Op != OpSummaryOffset {
				p.add("grammar", "%s at %d after DataEnd", OpName(r.Op), r.Off)
			}
		}
	}
	if nHeader != 1 || nDataEnd != 1 || nFooter != 1 {
		p.add("grammar", "header/dataend/footer counts %d/%d/%d", nHeader, nDataEnd, nFooter)
		return p.list
	}
	footer := last.Parsed.(*Footer)
	dataEnd := recs[f.DataEndIdx]

	// split the tail into summary records and summary offset records
	var summary, sumOffsets []*Rec
	seenOffset := false
	for _, r := range recs[f.DataEndIdx+1 : len(recs)-1] {
		if !known(r.Op) {
			if !seenOffset {
				summary = append(summary, r)
			}
			continue
		}
		if r.Op == OpSummaryOffset {
			seenOffset = true
			sumOffsets = append(sumOffsets, r)
		} else {
			if seenOffset {
				p.add("grammar", "%s at %d after the summary offset section began", OpName(r.Op), r.Off)
			}
			summary = append(summary, r)
		}
	}
	// grouping by opcode
	type group struct {
		op         byte
		start, end int
		recs       []*Rec
	}
	var groups []*group
	seenOps := map[byte]bool{}
	for _, r := range summary {
		if len(groups) > 0 && groups[len(groups)-1].op == r.Op {
			g := groups[len(groups)-1]
			g.end = r.End()
			g.recs = append(g.recs, r)
			continue
		}
		if seenOps[r.Op] {
			p.add("grammar", "summary records of opcode %s are not contiguous (at %d)", OpName(r.Op), r.Off)
		}
		seenOps[r.Op] = true
		groups = append(groups, &group{op: r.Op, start: r.Off, end: r.End(), recs: []*Rec{r}})
	}
	groupOf := func(op byte) *group {
		for _, g := range groups {
			if g.op == op {
				return g
			}
		}
		return nil
	}

	// ---- data section walk
	type chunkInfo struct {
		rec      *Rec
		ch       *Chunk
		midx     []*Rec
		msgs     map[uint16][]MessageIndexEntry
		nmsg     int
		min, max uint64
	}
	var chunks []*chunkInfo
	var attachments, metadatas []*Rec
	schemas := map[uint16]*Schema{}
	channels := map[uint16]*Channel{}
	var schemaOrder, channelOrder []uint16
	seeSchema := func(s *Schema, where string) {
		if s.ID == 0 {
			p.add("grammar", "schema with id 0 %s", where)
			return
		}
		if old, ok := schemas[s.ID]; ok {
			if !schemaEq(old, s) {
				p.add("grammar", "schema %d redefined with different content %s", s.ID, where)
			}
			return
		}
		schemas[s.ID] = s
		schemaOrder = append(schemaOrder, s.ID)
	}
	seeChannel := func(c *Channel, where string) {
		if c.SchemaID != 0 {
			if _, ok := schemas[c.SchemaID]; !ok {
				p.add("grammar", "channel %d refers to schema %d not yet seen %s", c.ID, c.SchemaID, where)
			}
		}
		if old, ok := channels[c.ID]; ok {
			if !channelEq(old, c) {
				p.add("grammar", "channel %d redefined with different content %s", c.ID, where)
			}
			return
		}
		channels[c.ID] = c
		channelOrder = append(channelOrder, c.ID)
	}
	var totalMsgs uint64
	var fileMin, fileMax uint64
	chanCounts := map[uint16]uint64{}
	seeMessage := func(m *Message, where string) {
		if _, ok := channels[m.ChannelID]; !ok {
			p.add("grammar", "message on channel %d not yet seen %s", m.ChannelID, where)
		}
		if totalMsgs == 0 || m.LogTime < fileMin {
			fileMin = m.LogTime
		}
		if totalMsgs == 0 || m.LogTime > fileMax {
			fileMax = m.LogTime
		}
		totalMsgs++
		chanCounts[m.ChannelID]++
	}
	var prev *Rec
	var curChunk *chunkInfo
	topLevelMessages := 0
	for _, r := range recs[1:f.DataEndIdx] {
		where := fmt.Sprintf("(top level at %d)", r.Off)
		switch r.Op {
		case OpSchema:
			seeSchema(r.Parsed.(*Schema), where)
		case OpChannel:
			seeChannel(r.Parsed.(*Channel), where)
		case OpMessage:
			topLevelMessages++
			seeMessage(r.Parsed.(*Message), where)
		case OpAttachment:
			attachments = append(attachments, r)
		case OpMetadata:
			metadatas = append(metadatas, r)
		case OpChunk:
			ch := r.Parsed.(*Chunk)
			ci := &chunkInfo{rec: r, ch: ch, msgs: map[uint16][]MessageIndexEntry{}}
			chunks = append(chunks, ci)
			curChunk = ci
			if ex.Compression != nil && ch.Compression != *ex.Compression {
				p.add("pointer", "chunk at %d has compression %q, want %q", r.Off, ch.Compression, *ex.Compression)
			}
			if ch.DecompErr != nil {
				p.add("grammar", "chunk at %d does not decompress: %v", r.Off, ch.DecompErr)
				break
			}
			if ch.InnerErr != nil {
				p.add("grammar", "chunk at %d inner records: %v", r.Off, ch.InnerErr)
			}
			if ch.UncompressedSize != uint64(len(ch.Uncompressed)) {
				p.add("pointer", "chunk at %d uncompressed_size %d, actual %d", r.Off, ch.UncompressedSize, len(ch.Uncompressed))
			}
			if r.Extra != 0 {
				p.add("grammar", "chunk at %d has %d bytes after its records field", r.Off, r.Extra)
			}
			for _, in := range ch.Inner {
				w := fmt.Sprintf("(chunk at %d, inner offset %d)", r.Off, in.Off)
				if in.ParseErr != nil {
					p.add("grammar", "%s %s does not parse: %v", OpName(in.Op), w, in.ParseErr)
					continue
				}
				switch in.Op {
				case OpSchema:
					seeSchema(in.Parsed.(*Schema), w)
				case OpChannel:
					seeChannel(in.Parsed.(*Channel), w)
				case OpMessage:
					m := in.Parsed.(*Message)
					seeMessage(m, w)
					if ci.nmsg == 0 || m.LogTime < ci.min {
						ci.min = m.LogTime
					}
					if ci.nmsg == 0 || m.LogTime > ci.max {
						ci.max = m.LogTime
					}
					ci.nmsg++
					ci.msgs[m.ChannelID] = append(ci.msgs[m.ChannelID], MessageIndexEntry{m.LogTime, uint64(in.Off)})
				default:
					if known(in.Op) || !ex.AllowUnknown {
						p.add("grammar", "%s inside chunk %s", OpName(in.Op), w)
					}
				}
			}
			if ch.MessageStartTime != ci.min || ch.MessageEndTime != ci.max {
				p.add("pointer", "chunk at %d times [%d,%d], true [%d,%d] over %d messages", r.Off, ch.MessageStartTime, ch.MessageEndTime, ci.min, ci.max, ci.nmsg)
			}
		case OpMessageIndex:
			if prev == nil || (prev.Op != OpChunk && prev.Op != OpMessageIndex) || curChunk == nil {
				p.add("grammar", "message index at %d does not directly follow a chunk", r.Off)
			} else {
				curChunk.midx = append(curChunk.midx, r)
			}
		}
		if known(r.Op) {
			prev = r
			if r.Op != OpChunk && r.Op != OpMessageIndex {
				curChunk = nil
			}
		}
	}
	if ex.MessagesInChunks == Yes && topLevelMessages > 0 {
		p.add("grammar", "%d message records outside chunks", topLevelMessages)
	}

	// ---- message indexes
	anyMidx := false
	for _, ci := range chunks {
		if len(ci.midx) > 0 {
			anyMidx = true
		}
	}
	wantMidx := ex.MessageIndexes == Yes || (ex.MessageIndexes == Auto && anyMidx)
	for _, ci := range chunks {
		if ex.MessageIndexes == No && len(ci.midx) > 0 {
			p.add("pointer", "chunk at %d has message index records but message indexing is off", ci.rec.Off)
		}
		if !wantMidx {
			continue
		}
		seen := map[uint16]bool{}
		for _, mr := range ci.midx {
			mi := mr.Parsed.(*MessageIndex)
			if seen[mi.ChannelID] {
				p.add("pointer", "chunk at %d has two message index records for channel %d", ci.rec.Off, mi.ChannelID)
			}
			seen[mi.ChannelID] = true
			want := append([]MessageIndexEntry(nil), ci.msgs[mi.ChannelID]...)
			got := append([]MessageIndexEntry(nil), mi.Entries...)
			less := func(s []MessageIndexEntry) func(i, j int) bool {
				return func(i, j int) bool {
					if s[i].Offset != s[j].Offset {
						return s[i].Offset < s[j].Offset
					}
					return s[i].LogTime < s[j].LogTime
				}
			}
			sort.Slice(want, less(want))
			sort.Slice(got, less(got))
			if len(want) != len(got) {
				p.add("pointer", "message index at %d for channel %d has %d entries, chunk holds %d messages of it", mr.Off, mi.ChannelID, len(got), len(want))
				continue
			}
			for i := range want {
				if want[i] != got[i] {
					p.add("pointer", "message index at %d channel %d entry %d = (%d,%d), true (%d,%d)", mr.Off, mi.ChannelID, i, got[i].LogTime, got[i].Offset, want[i].LogTime, want[i].Offset)
					break
				}
			}
		}
		for id := range ci.msgs {
			if !seen[id] {
				p.add("pointer", "chunk at %d holds messages of channel %d but no message index record for it follows", ci.rec.Off, id)
			}
		}
	}

	// ---- chunk indexes
	if g := groupOf(OpChunkIndex); ex.ChunkIndexes == No {
		if g != nil {
			p.add("pointer", "chunk index records present but disabled")
		}
	} else if g != nil || (ex.ChunkIndexes == Yes && len(chunks) > 0) {
		var got []*Rec
		if g != nil {
			got = g.recs
		}
		if len(got) != len(chunks) {
			p.add("pointer", "%d chunk index records for %d chunks", len(got), len(chunks))
		}
		byOff := map[uint64]*chunkInfo{}
		for _, ci := range chunks {
			byOff[uint64(ci.rec.Off)] = ci
		}
		used := map[uint64]bool{}
		for _, r := range got {
			x := r.Parsed.(*ChunkIndex)
			ci := byOff[x.ChunkStartOffset]
			if ci == nil {
				p.add("pointer", "chunk index at %d points to %d where no chunk record starts", r.Off, x.ChunkStartOffset)
				continue
			}
			if used[x.ChunkStartOffset] {
				p.add("pointer", "two chunk indexes for the chunk at %d", x.ChunkStartOffset)
			}
			used[x.ChunkStartOffset] = true
			ch := ci.ch
			if x.ChunkLength != uint64(ci.rec.Len) {
				p.add("pointer", "chunk index at %d chunk_length %d, true %d", r.Off, x.ChunkLength, ci.rec.Len)
			}
			if x.MessageStartTime != ch.MessageStartTime || x.MessageEndTime != ch.MessageEndTime || x.MessageStartTime != ci.min || x.MessageEndTime != ci.max {
				p.add("pointer", "chunk index at %d times [%d,%d], chunk header [%d,%d], true [%d,%d]", r.Off, x.MessageStartTime, x.MessageEndTime, ch.MessageStartTime, ch.MessageEndTime, ci.min, ci.max)
			}
			if x.Compression != ch.Compression {
				p.add("pointer", "chunk index at %d compression %q, chunk %q", r.Off, x.Compression, ch.Compression)
			}
			if x.CompressedSize != uint64(len(ch.Records)) {
				p.add("pointer", "chunk index at %d compressed_size %d, true %d", r.Off, x.CompressedSize, len(ch.Records))
			}
			if x.UncompressedSize != uint64(len(ch.Uncompressed)) {
				p.add("pointer", "chunk index at %d uncompressed_size %d, true %d", r.Off, x.UncompressedSize, len(ch.Uncompressed))
			}
			var mlen uint64
			trueOff := map[uint16]uint64{}
			for _, mr := range ci.midx {
				mlen += uint64(mr.Len)
				trueOff[mr.Parsed.(*MessageIndex).ChannelID] = uint64(mr.Off)
			}
			if x.MessageIndexLength != mlen {
				p.add("pointer", "chunk index at %d message_index_length %d, true %d", r.Off, x.MessageIndexLength, mlen)
			}
			if len(x.MessageIndexOffsets) != len(trueOff) {
				p.add("pointer", "chunk index at %d lists %d message index offsets, %d message index records follow the chunk", r.Off, len(x.MessageIndexOffsets), len(trueOff))
			}
			dup := map[uint16]bool{}
			for _, e := range x.MessageIndexOffsets {
				if dup[e.K] {
					p.add("pointer", "chunk index at %d lists channel %d twice", r.Off, e.K)
				}
				dup[e.K] = true
				if t, ok := trueOff[e.K]; !ok || t != e.V {
					p.add("pointer", "chunk index at %d message index offset for channel %d = %d, true %d (present=%v)", r.Off, e.K, e.V, t, ok)
				}
			}
		}
	}

	// ---- attachment indexes
	checkAtt := func() {
		g := groupOf(OpAttachmentIndex)
		if ex.AttachmentIndexes == No {
			if g != nil {
				p.add("pointer", "attachment index records present but disabled")
			}
			return
		}
		if g == nil && !(ex.AttachmentIndexes == Yes && len(attachments) > 0) {
			return
		}
		var got []*Rec
		if g != nil {
			got = g.recs
		}
		if len(got) != len(attachments) {
			p.add("pointer", "%d attachment index records for %d attachments", len(got), len(attachments))
			return
		}
		for i, r := range got {
			x := r.Parsed.(*AttachmentIndex)
			ar := attachments[i]
			a := ar.Parsed.(*Attachment)
			if x.Offset != uint64(ar.Off) || x.Length != uint64(ar.Len) {
				p.add("pointer", "attachment index %d = (offset %d, length %d), attachment record is at %d with length %d", i, x.Offset, x.Length, ar.Off, ar.Len)
			}
			if x.LogTime != a.LogTime || x.CreateTime != a.CreateTime || x.DataSize != uint64(len(a.Data)) || x.Name != a.Name || x.MediaType != a.MediaType {
				p.add("pointer", "attachment index %d fields differ from the attachment at %d", i, ar.Off)
			}
		}
	}
	checkAtt()
	checkMeta := func() {
		g := groupOf(OpMetadataIndex)
		if ex.MetadataIndexes == No {
			if g != nil {
				p.add("pointer", "metadata index records present but disabled")
			}
			return
		}
		if g == nil && !(ex.MetadataIndexes == Yes && len(metadatas) > 0) {
			return
		}
		var got []*Rec
		if g != nil {
			got = g.recs
		}
		if len(got) != len(metadatas) {
			p.add("pointer", "%d metadata index records for %d metadata records", len(got), len(metadatas))
			return
		}
		for i, r := range got {
			x := r.Parsed.(*MetadataIndex)
			mr := metadatas[i]
			if x.Offset != uint64(mr.Off) || x.Length != uint64(mr.Len) || x.Name != mr.Parsed.(*Metadata).Name {
				p.add("pointer", "metadata index %d = (offset %d, length %d, %q), metadata record is at %d with length %d name %q", i, x.Offset, x.Length, x.Name, mr.Off, mr.Len, mr.Parsed.(*Metadata).Name)
			}
		}
	}
	checkMeta()

	// ---- repeated schemas / channels
	if g := groupOf(OpSchema); ex.RepeatedSchemas == No {
		if g != nil {
			p.add("pointer", "summary schema records present but disabled")
		}
	} else if g != nil || (ex.RepeatedSchemas == Yes && len(schemas) > 0) {
		seen := map[uint16]bool{}
		if g != nil {
			for _, r := range g.recs {
				s := r.Parsed.(*Schema)
				d, ok := schemas[s.ID]
				if !ok {
					p.add("pointer", "summary schema %d does not occur in the data section", s.ID)
				} else if !schemaEq(d, s) {
					p.add("pointer", "summary schema %d differs from the data-section record", s.ID)
				}
				seen[s.ID] = true
			}
		}
		for id := range schemas {
			if !seen[id] {
				p.add("pointer", "schema %d missing from the summary", id)
			}
		}
	}
	if g := groupOf(OpChannel); ex.RepeatedChannels == No {
		if g != nil {
			p.add("pointer", "summary channel records present but disabled")
		}
	} else if g != nil || (ex.RepeatedChannels == Yes && len(channels) > 0) {
		seen := map[uint16]bool{}
		if g != nil {
			for _, r := range g.recs {
				c := r.Parsed.(*Channel)
				d, ok := channels[c.ID]
				if !ok {
					p.add("pointer", "summary channel %d does not occur in the data section", c.ID)
				} else if !channelEq(d, c) {
					p.add("pointer", "summary channel %d differs from the data-section record", c.ID)
				}
				seen[c.ID] = true
			}
		}
		for id := range channels {
			if !seen[id] {
				p.add("pointer", "channel %d missing from the summary", id)
			}
		}
	}
	if g := groupOf(OpStatistics); g != nil {
		if ex.Statistics == No {
			p.add("pointer", "statistics record present but disabled")
		}
		if len(g.recs) > 1 {
			p.add("grammar", "%d statistics records", len(g.recs))
		}
	} else if ex.Statistics == Yes {
		p.add("pointer", "statistics record missing")
	}

	// ---- summary offsets and footer
	knownGroups := 0
	for _, g := range groups {
		if known(g.op) {
			knownGroups++
		}
	}
	if ex.SummaryOffsets == No && len(sumOffsets) > 0 {
		p.add("pointer", "summary offset records present but disabled")
	}
	if len(sumOffsets) > 0 || (ex.SummaryOffsets == Yes && len(groups) > 0) {
		used := map[byte]bool{}
		for _, r := range sumOffsets {
			x := r.Parsed.(*SummaryOffset)
			g := groupOf(x.GroupOpcode)
			if g == nil {
				p.add("pointer", "summary offset at %d for opcode 0x%02x which has no group", r.Off, x.GroupOpcode)
				continue
			}
			if used[x.GroupOpcode] {
				p.add("pointer", "two summary offsets for opcode 0x%02x", x.GroupOpcode)
			}
			used[x.GroupOpcode] = true
			if x.GroupStart != uint64(g.start) || x.GroupLength != uint64(g.end-g.start) {
				p.add("pointer", "summary offset for %s = (%d,%d), group spans (%d,%d)", OpName(x.GroupOpcode), x.GroupStart, x.GroupLength, g.start, g.end-g.start)
			}
		}
		for _, g := range groups {
			if known(g.op) && !used[g.op] {
				p.add("pointer", "no summary offset for group %s", OpName(g.op))
			}
		}
	}
	if len(summary) == 0 {
		if footer.SummaryStart != 0 {
			p.add("pointer", "footer.summary_start %d with an empty summary section", footer.SummaryStart)
		}
	} else if footer.SummaryStart != uint64(summary[0].Off) {
		p.add("pointer", "footer.summary_start %d, first summary record at %d", footer.SummaryStart, summary[0].Off)
	}
	if len(sumOffsets) == 0 {
		// "If there are no Summary Offset records this value should be 0" (an earlier version of this
		// validator also accepted the footer's own position, which is what the writer used to emit)
		if footer.SummaryOffsetStart != 0 {
			p.add("pointer", "footer.summary_offset_start %d with no summary offset records (footer at %d); the specification asks for 0", footer.SummaryOffsetStart, last.Off)
		}
	} else if footer.SummaryOffsetStart != uint64(sumOffsets[0].Off) {
		p.add("pointer", "footer.summary_offset_start %d, first summary offset record at %d", footer.SummaryOffsetStart, sumOffsets[0].Off)
	}

	// ---- CRCs (C06)
	de := dataEnd.Parsed.(*DataEnd)
	dataCRC := crc32.ChecksumIEEE(f.Data[:dataEnd.Off])
	sumCRC := crc32.ChecksumIEEE(f.Data[dataEnd.End() : last.Off+9+16])
	switch ex.CRC {
	case Yes:
		if de.DataSectionCRC != dataCRC {
			p.add("crc", "data_section_crc %08x, true %08x over [0,%d)", de.DataSectionCRC, dataCRC, dataEnd.Off)
		}
		if footer.SummaryCRC != sumCRC {
			p.add("crc", "summary_crc %08x, true %08x over [%d,%d)", footer.SummaryCRC, sumCRC, dataEnd.End(), last.Off+9+16)
		}
	case No:
		if de.DataSectionCRC != 0 {
			p.add("crc", "data_section_crc %08x with checksums disabled", de.DataSectionCRC)
		}
		if footer.SummaryCRC != 0 {
			p.add("crc", "summary_crc %08x with checksums disabled", footer.SummaryCRC)
		}
	default:
		if de.DataSectionCRC != 0 && de.DataSectionCRC != dataCRC {
			p.add("crc", "data_section_crc %08x, true %08x", de.DataSectionCRC, dataCRC)
		}
		if footer.SummaryCRC != 0 && footer.SummaryCRC != sumCRC {
			p.add("crc", "summary_crc %08x, true %08x", footer.SummaryCRC, sumCRC)
		}
	}
	for _, ci := range chunks {
		if ci.ch.DecompErr != nil {
			continue
		}
		c := crc32.ChecksumIEEE(ci.ch.Uncompressed)
		switch ex.CRC {
		case Yes:
			if ci.ch.UncompressedCRC != c {
				p.add("crc", "chunk at %d uncompressed_crc %08x, true %08x", ci.rec.Off, ci.ch.UncompressedCRC, c)
			}
		case No:
			if ci.ch.UncompressedCRC != 0 {
				p.add("crc", "chunk at %d uncompressed_crc %08x with checksums disabled", ci.rec.Off, ci.ch.UncompressedCRC)
			}
		default:
			if ci.ch.UncompressedCRC != 0 && ci.ch.UncompressedCRC != c {
				p.add("crc", "chunk at %d uncompressed_crc %08x, true %08x", ci.rec.Off, ci.ch.UncompressedCRC, c)
			}
		}
	}
	for _, ar := range attachments {
		a := ar.Parsed.(*Attachment)
		c := crc32.ChecksumIEEE(ar.Body[:a.CRCEnd-4])
		if a.CRC != c && !(ex.CRC == Auto && a.CRC == 0) {
			p.add("crc", "attachment at %d crc %08x, true %08x", ar.Off, a.CRC, c)
		}
	}
	return p.list
}

// Aggregates are the true statistics of a decoded file, recomputed from its data section.
type Aggregates struct {
	MessageCount     uint64
	SchemaIDs        map[uint16]bool
	ChannelIDs       map[uint16]bool
	AttachmentCount  uint32
	MetadataCount    uint32
	ChunkCount       uint32
	MessageStartTime uint64
	MessageEndTime   uint64
	ChannelCounts    map[uint16]uint64
}

// Aggregate recomputes the statistics from the data section records.
func (f *File) Aggregate() *Aggregates {
	a := &Aggregates{SchemaIDs: map[uint16]bool{}, ChannelIDs: map[uint16]bool{}, ChannelCounts: map[uint16]uint64{}}
	end := len(f.Recs)
	if f.DataEndIdx >= 0 {
		end = f.DataEndIdx
	}
	visit := func(r *Rec) {
		if r.ParseErr != nil {
			return
		}
		switch r.Op {
		case OpSchema:
			a.SchemaIDs[r.Parsed.(*Schema).ID] = true
		case OpChannel:
			a.ChannelIDs[r.Parsed.(*Channel).ID] = true
		case OpMessage:
			m := r.Parsed.(*Message)
			if a.MessageCount == 0 || m.LogTime < a.MessageStartTime {
				a.MessageStartTime = m.LogTime
			}
			if a.MessageCount == 0 || m.LogTime > a.MessageEndTime {
				a.MessageEndTime = m.LogTime
			}
			a.MessageCount++
			a.ChannelCounts[m.ChannelID]++
		case OpAttachment:
			a.AttachmentCount++
		case OpMetadata:
			a.MetadataCount++
		}
	}
	for _, r := range f.Recs[:end] {
		if r.Op == OpChunk {
			a.ChunkCount++
			if ch, ok := r.Parsed.(*Chunk); ok {
				for _, in := range ch.Inner {
					visit(in)
				}
			}
			continue
		}
		visit(r)
	}
	return a
}

// SummaryRecs returns the summary-section records with the given opcode, in file order.
func (f *File) SummaryRecs(op byte) []*Rec {
	var out []*Rec
	if f.DataEndIdx < 0 {
		return nil
	}
	for _, r := range f.Recs[f.DataEndIdx+1:] {
		if r.Op == op {
			out = append(out, r)
		}
	}
	return out
}
