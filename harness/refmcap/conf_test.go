package refmcap

import (
	"crypto/sha256"
	"encoding/hex"
	"fmt"
	"os"
	"strings"
	"testing"
)

func TestConfPins(t *testing.T) {
	ok, bad := 0, 0
	for _, v := range ConfVariants() {
		p := fmt.Sprintf("/repo/tests/conformance/data/%s/%s.mcap", v.Base, v.Name)
		b, err := os.ReadFile(p)
		if err != nil {
			t.Fatal(err)
		}
		lines := strings.Split(string(b), "\n")
		oid := strings.TrimPrefix(strings.TrimSpace(lines[1]), "oid sha256:")
		var size int
		fmt.Sscanf(lines[2], "size %d", &size)
		enc, err := Encode(ConfPlan(v))
		if err != nil {
			t.Fatal(err)
		}
		h := sha256.Sum256(enc.Bytes)
		if hex.EncodeToString(h[:]) == oid && len(enc.Bytes) == size {
			ok++
		} else {
			bad++
			if bad < 5 {
				t.Errorf("mismatch %s size %d want %d", v.Name, len(enc.Bytes), size)
			}
		}
		f, err := Decode(enc.Bytes, nil)
		if err != nil {
			t.Fatal(v.Name, err)
		}
		if pr := Validate(f, Expect{}); len(pr) > 0 {
			t.Errorf("%s: %v", v.Name, pr)
		}
	}
	t.Logf("ok=%d bad=%d", ok, bad)
}
