package refmcap

import (
	"fmt"
	"sort"
	"strconv"
	"strings"
)

// This file re-implements tests/conformance/scripts/generate-inputs.ts and
// tests/conformance/variants/generateTestVariants.ts on top of the reference encoder,
// and the record→JSON projection of scripts/run-tests/toSerializableMcapRecord.ts.

var confPad = []byte{1, 0xff, 0xff}

var ConfFeatures = []string{"ch", "mx", "st", "rsh", "rch", "ax", "mdx", "chx", "sum", "pad"}

type ConfVariant struct {
	Base     string
	Name     string
	Features map[string]bool
	Items    []Item
}

func confInputs() [][2]any {
	sch := &Schema{ID: 1, Name: "Example", Encoding: "c", Data: []byte{4, 5, 6}}
	ch := &Channel{ID: 1, SchemaID: 1, Topic: "example", MessageEncoding: "a", Metadata: []KV{{"foo", "bar"}}}
	msg := &Message{ChannelID: 1, Sequence: 10, LogTime: 2, PublishTime: 1, Data: []byte{1, 2, 3}}
	var ten []Item
	ten = append(ten, Item{Schema: sch}, Item{Channel: ch})
	for i, t := range []uint64{0, 2, 1, 3, 3, 5, 4, 7, 8, 9} {
		ten = append(ten, Item{Message: &Message{ChannelID: 1, Sequence: uint32(i), LogTime: t, PublishTime: t, Data: []byte{1, 2, 3}}})
	}
	return [][2]any{
		{"NoData", []Item{}},
		{"OneSchemalessMessage", []Item{{Channel: &Channel{ID: 1, SchemaID: 0, Topic: "example", MessageEncoding: "text"}}, {Message: msg}}},
		{"OneMessage", []Item{{Schema: sch}, {Channel: ch}, {Message: msg}}},
		{"OneAttachment", []Item{{Attachment: &Attachment{Name: "myFile", MediaType: "application/octet-stream", LogTime: 2, CreateTime: 1, Data: []byte{1, 2, 3}}}}},
		{"OneMetadata", []Item{{Metadata: &Metadata{Name: "myMetadata", Metadata: []KV{{"foo", "bar"}}}}}},
		{"TenMessages", ten},
	}
}

func combos(fs []string) [][]string {
	if len(fs) == 0 {
		return [][]string{nil}
	}
	var out [][]string
	for _, v := range combos(fs[1:]) {
		out = append(out, v)
		out = append(out, append([]string{fs[0]}, v...))
	}
	return out
}

// ConfVariants enumerates the conformance matrix by the generator's admission rules.
func ConfVariants() []ConfVariant {
	var out []ConfVariant
	for _, in := range confInputs() {
		base := in[0].(string)
		items := in[1].([]Item)
		has := map[string]bool{}
		for _, it := range items {
			switch {
			case it.Schema != nil:
				has["Schema"] = true
			case it.Channel != nil:
				has["Channel"] = true
			case it.Message != nil:
				has["Message"] = true
			case it.Attachment != nil:
				has["Attachment"] = true
			case it.Metadata != nil:
				has["Metadata"] = true
			}
		}
		for _, c := range combos(ConfFeatures) {
			f := map[string]bool{}
			for _, x := range c {
				f[x] = true
			}
			if f["ax"] && !has["Attachment"] {
				continue
			}
			if f["mdx"] && !has["Metadata"] {
				continue
			}
			if f["rsh"] && !has["Schema"] {
				continue
			}
			if f["rch"] && !has["Channel"] {
				continue
			}
			if !(has["Message"] || has["Channel"] || has["Schema"]) && (f["ch"] || f["chx"] || f["mx"]) {
				continue
			}
			if f["sum"] && !(f["chx"] || f["rsh"] || f["rch"] || f["mdx"] || f["ax"] || f["st"]) {
				continue
			}
			if (f["chx"] || f["mx"]) && !f["ch"] {
				continue
			}
			names := append([]string(nil), c...)
			sort.Strings(names)
			out = append(out, ConfVariant{Base: base, Name: strings.Join(append([]string{base}, names...), "-"), Features: f, Items: items})
		}
	}
	return out
}

// ConfPlan lays a variant out exactly as generate-inputs.ts does.
func ConfPlan(v ConfVariant) *Plan {
	f := v.Features
	pad := func() []byte {
		if f["pad"] {
			return confPad
		}
		return nil
	}
	p := &Plan{Header: Header{}, HeaderTrail: pad(), SummaryOffsets: f["sum"], SummaryOffsetTrail: pad()}
	var chunk *ChunkPlan
	if f["ch"] {
		chunk = &ChunkPlan{Compression: "", MidxTrail: pad()}
		if f["mx"] {
			chunk.Midx = MidxAllChannels
		}
	}
	for _, it := range v.Items {
		it := it
		switch {
		case it.Schema != nil, it.Channel != nil, it.Message != nil:
			if chunk != nil {
				chunk.Items = append(chunk.Items, it)
			} else {
				if it.Message == nil {
					it.Trailing = pad()
				}
				p.Data = append(p.Data, Elem{Item: &it})
			}
		default:
			it.Trailing = pad()
			p.Data = append(p.Data, Elem{Item: &it})
		}
	}
	if chunk != nil {
		p.Data = append(p.Data, Elem{Chunk: chunk})
	}
	tf := func(int) []byte { return pad() }
	if f["rsh"] {
		p.Summary = append(p.Summary, SummaryGroup{Op: OpSchema, TrailFn: tf})
	}
	if f["rch"] {
		p.Summary = append(p.Summary, SummaryGroup{Op: OpChannel, TrailFn: tf})
	}
	if f["st"] {
		p.Summary = append(p.Summary, SummaryGroup{Op: OpStatistics, TrailFn: tf})
	}
	if f["mdx"] {
		p.Summary = append(p.Summary, SummaryGroup{Op: OpMetadataIndex, TrailFn: tf})
	}
	if f["ax"] {
		p.Summary = append(p.Summary, SummaryGroup{Op: OpAttachmentIndex, TrailFn: tf})
	}
	if f["chx"] {
		p.Summary = append(p.Summary, SummaryGroup{Op: OpChunkIndex, TrailFn: tf})
	}
	return p
}

// ---- JSON projection used by the conformance expectations

func u(v uint64) string { return strconv.FormatUint(v, 10) }

func bytesJSON(b []byte) any {
	out := make([]any, len(b))
	for i, x := range b {
		out[i] = strconv.Itoa(int(x))
	}
	return out
}

func kvJSON(m []KV) any {
	out := map[string]any{}
	for _, e := range m {
		out[e.K] = e.V
	}
	return out
}

func u16u64JSON(m []U16U64) any {
	out := map[string]any{}
	for _, e := range m {
		out[u(uint64(e.K))] = u(e.V)
	}
	return out
}

func rec(typ string, kv ...any) map[string]any {
	type pair struct {
		k string
		v any
	}
	var ps []pair
	for i := 0; i < len(kv); i += 2 {
		ps = append(ps, pair{kv[i].(string), kv[i+1]})
	}
	sort.Slice(ps, func(i, j int) bool { return ps[i].k < ps[j].k })
	fields := make([]any, len(ps))
	for i, p := range ps {
		fields[i] = []any{p.k, p.v}
	}
	return map[string]any{"type": typ, "fields": fields}
}

// ConfJSON projects one parsed record onto the expectation form; ok=false for records the
// expectations do not list (Chunk itself, MessageIndex, unknown).
func ConfJSON(r *Rec) (map[string]any, bool) {
	switch v := r.Parsed.(type) {
	case *Header:
		return rec("Header", "profile", v.Profile, "library", v.Library), true
	case *Footer:
		return rec("Footer", "summary_start", u(v.SummaryStart), "summary_offset_start", u(v.SummaryOffsetStart), "summary_crc", u(uint64(v.SummaryCRC))), true
	case *Schema:
		return rec("Schema", "id", u(uint64(v.ID)), "name", v.Name, "encoding", v.Encoding, "data", bytesJSON(v.Data)), true
	case *Channel:
		return rec("Channel", "id", u(uint64(v.ID)), "schema_id", u(uint64(v.SchemaID)), "topic", v.Topic, "message_encoding", v.MessageEncoding, "metadata", kvJSON(v.Metadata)), true
	case *Message:
		return rec("Message", "channel_id", u(uint64(v.ChannelID)), "sequence", u(uint64(v.Sequence)), "log_time", u(v.LogTime), "publish_time", u(v.PublishTime), "data", bytesJSON(v.Data)), true
	case *Attachment:
		return rec("Attachment", "log_time", u(v.LogTime), "create_time", u(v.CreateTime), "name", v.Name, "media_type", v.MediaType, "data", bytesJSON(v.Data)), true
	case *Metadata:
		return rec("Metadata", "name", v.Name, "metadata", kvJSON(v.Metadata)), true
	case *DataEnd:
		return rec("DataEnd", "data_section_crc", u(uint64(v.DataSectionCRC))), true
	case *Statistics:
		return rec("Statistics", "message_count", u(v.MessageCount), "schema_count", u(uint64(v.SchemaCount)), "channel_count", u(uint64(v.ChannelCount)),
			"attachment_count", u(uint64(v.AttachmentCount)), "metadata_count", u(uint64(v.MetadataCount)), "chunk_count", u(uint64(v.ChunkCount)),
			"message_start_time", u(v.MessageStartTime), "message_end_time", u(v.MessageEndTime), "channel_message_counts", u16u64JSON(v.ChannelMessageCounts)), true
	case *ChunkIndex:
		return rec("ChunkIndex", "message_start_time", u(v.MessageStartTime), "message_end_time", u(v.MessageEndTime), "chunk_start_offset", u(v.ChunkStartOffset),
			"chunk_length", u(v.ChunkLength), "message_index_offsets", u16u64JSON(v.MessageIndexOffsets), "message_index_length", u(v.MessageIndexLength),
			"compression", v.Compression, "compressed_size", u(v.CompressedSize), "uncompressed_size", u(v.UncompressedSize)), true
	case *AttachmentIndex:
		return rec("AttachmentIndex", "offset", u(v.Offset), "length", u(v.Length), "log_time", u(v.LogTime), "create_time", u(v.CreateTime),
			"data_size", u(v.DataSize), "name", v.Name, "media_type", v.MediaType), true
	case *MetadataIndex:
		return rec("MetadataIndex", "offset", u(v.Offset), "length", u(v.Length), "name", v.Name), true
	case *SummaryOffset:
		return rec("SummaryOffset", "group_opcode", u(uint64(v.GroupOpcode)), "group_start", u(v.GroupStart), "group_length", u(v.GroupLength)), true
	}
	return nil, false
}

// ConfRecords renders a decoded file as the expectation's "records" list: chunks are replaced by
// the records they contain, message indexes are omitted.
func ConfRecords(f *File) ([]any, error) {
	var out []any
	for _, r := range f.Recs {
		if r.ParseErr != nil {
			return nil, fmt.Errorf("%s at %d: %v", OpName(r.Op), r.Off, r.ParseErr)
		}
		if r.Op == OpChunk {
			ch := r.Parsed.(*Chunk)
			if ch.DecompErr != nil {
				return nil, ch.DecompErr
			}
			if ch.InnerErr != nil {
				return nil, ch.InnerErr
			}
			for _, in := range ch.Inner {
				if j, ok := ConfJSON(in); ok {
					out = append(out, j)
				}
			}
			continue
		}
		if j, ok := ConfJSON(r); ok {
			out = append(out, j)
		}
	}
	return out, nil
}
