package refmcap

import (
	"bytes"
	"fmt"
	"hash/crc32"

	"github.com/klauspost/compress/zstd"
	"github.com/pierrec/lz4/v4"
)

// ---- primitive serialisers (spec "Serialization" section)

func appU16(b []byte, v uint16) []byte { return le.AppendUint16(b, v) }
func appU32(b []byte, v uint32) []byte { return le.AppendUint32(b, v) }
func appU64(b []byte, v uint64) []byte { return le.AppendUint64(b, v) }
func appStr(b []byte, s string) []byte { return append(appU32(b, uint32(len(s))), s...) }
func appStrMap(b []byte, m []KV) []byte {
	var body []byte
	for _, e := range m {
		body = appStr(body, e.K)
		body = appStr(body, e.V)
	}
	return append(appU32(b, uint32(len(body))), body...)
}
func appU16U64Map(b []byte, m []U16U64) []byte {
	b = appU32(b, uint32(len(m)*10))
	for _, e := range m {
		b = appU16(b, e.K)
		b = appU64(b, e.V)
	}
	return b
}

// Record frames a body.
func Record(op byte, body []byte) []byte {
	out := make([]byte, 0, 9+len(body))
	out = append(out, op)
	out = appU64(out, uint64(len(body)))
	return append(out, body...)
}

func (v *Header) Body() []byte { return appStr(appStr(nil, v.Profile), v.Library) }
func (v *Schema) Body() []byte {
	b := appU16(nil, v.ID)
	b = appStr(b, v.Name)
	b = appStr(b, v.Encoding)
	b = appU32(b, uint32(len(v.Data)))
	return append(b, v.Data...)
}
func (v *Channel) Body() []byte {
	b := appU16(nil, v.ID)
	b = appU16(b, v.SchemaID)
	b = appStr(b, v.Topic)
	b = appStr(b, v.MessageEncoding)
	return appStrMap(b, v.Metadata)
}
func (v *Message) Body() []byte {
	b := appU16(nil, v.ChannelID)
	b = appU32(b, v.Sequence)
	b = appU64(b, v.LogTime)
	b = appU64(b, v.PublishTime)
	return append(b, v.Data...)
}

// Body serialises an attachment with its CRC computed over the preceding fields
// (unless zeroCRC, which stores 0 = "not available").
func (v *Attachment) Body(zeroCRC bool) []byte {
	b := appU64(nil, v.LogTime)
	b = appU64(b, v.CreateTime)
	b = appStr(b, v.Name)
	b = appStr(b, v.MediaType)
	b = appU64(b, uint64(len(v.Data)))
	b = append(b, v.Data...)
	if zeroCRC {
		return appU32(b, 0)
	}
	return appU32(b, crc32.ChecksumIEEE(b))
}
func (v *Metadata) Body() []byte { return appStrMap(appStr(nil, v.Name), v.Metadata) }
func (v *MessageIndex) Body() []byte {
	b := appU16(nil, v.ChannelID)
	b = appU32(b, uint32(len(v.Entries)*16))
	for _, e := range v.Entries {
		b = appU64(b, e.LogTime)
		b = appU64(b, e.Offset)
	}
	return b
}
func (v *ChunkIndex) Body() []byte {
	b := appU64(nil, v.MessageStartTime)
	b = appU64(b, v.MessageEndTime)
	b = appU64(b, v.ChunkStartOffset)
	b = appU64(b, v.ChunkLength)
	b = appU16U64Map(b, v.MessageIndexOffsets)
	b = appU64(b, v.MessageIndexLength)
	b = appStr(b, v.Compression)
	b = appU64(b, v.CompressedSize)
	return appU64(b, v.UncompressedSize)
}
func (v *AttachmentIndex) Body() []byte {
	b := appU64(nil, v.Offset)
	b = appU64(b, v.Length)
	b = appU64(b, v.LogTime)
	b = appU64(b, v.CreateTime)
	b = appU64(b, v.DataSize)
	b = appStr(b, v.Name)
	return appStr(b, v.MediaType)
}
func (v *MetadataIndex) Body() []byte {
	b := appU64(nil, v.Offset)
	b = appU64(b, v.Length)
	return appStr(b, v.Name)
}
func (v *Statistics) Body() []byte {
	b := appU64(nil, v.MessageCount)
	b = appU16(b, v.SchemaCount)
	b = appU32(b, v.ChannelCount)
	b = appU32(b, v.AttachmentCount)
	b = appU32(b, v.MetadataCount)
	b = appU32(b, v.ChunkCount)
	b = appU64(b, v.MessageStartTime)
	b = appU64(b, v.MessageEndTime)
	return appU16U64Map(b, v.ChannelMessageCounts)
}
func (v *SummaryOffset) Body() []byte {
	b := []byte{v.GroupOpcode}
	b = appU64(b, v.GroupStart)
	return appU64(b, v.GroupLength)
}
func (v *Footer) BodyPrefix() []byte {
	return appU64(appU64(nil, v.SummaryStart), v.SummaryOffsetStart)
}

// Compress compresses chunk content with one of the well-known formats.
func Compress(compression string, raw []byte, custom map[string]func([]byte) ([]byte, error)) ([]byte, error) {
	if f, ok := custom[compression]; ok {
		return f(raw)
	}
	switch compression {
	case "":
		return raw, nil
	case "zstd":
		// WithZeroFrames: empty content still gets a (13-byte) frame, as streaming encoders produce
		e, err := zstd.NewWriter(nil, zstd.WithZeroFrames(true))
		if err != nil {
			return nil, err
		}
		defer e.Close()
		return e.EncodeAll(raw, nil), nil
	case "zstd-noframe-when-empty":
		e, err := zstd.NewWriter(nil)
		if err != nil {
			return nil, err
		}
		defer e.Close()
		return e.EncodeAll(raw, nil), nil
	case "lz4":
		var buf bytes.Buffer
		w := lz4.NewWriter(&buf)
		if _, err := w.Write(raw); err != nil {
			return nil, err
		}
		if err := w.Close(); err != nil {
			return nil, err
		}
		return buf.Bytes(), nil
	}
	return nil, fmt.Errorf("unknown compression %q", compression)
}

// ---- plan: logical content + layout

// Item is one logical data-section record. Exactly one field is set
// (or Unknown for a record with an opcode the spec does not define).
type Item struct {
	Schema     *Schema
	Channel    *Channel
	Message    *Message
	Attachment *Attachment
	Metadata   *Metadata
	Unknown    *UnknownRec
	Trailing   []byte // extra bytes appended to the record content (extensible records only)
}

type UnknownRec struct {
	Op   byte
	Body []byte
}

type MidxMode int

const (
	MidxNone        MidxMode = iota // no message index records
	MidxMessages                    // one record per channel that has a message in the chunk (Go writer)
	MidxAllChannels                 // additionally an empty record per channel record in the chunk (TS generator)
)

// ChunkPlan is one chunk: the schema/channel/message (and unknown) items inside it.
type ChunkPlan struct {
	Compression string
	Items       []Item
	Midx        MidxMode
	MidxTrail   []byte // trailing bytes for each message index record
	// AfterChunk are unknown records placed after the chunk's message indexes (never between).
	ZeroCRC bool
}

// Elem is one top-level element of the data section.
type Elem struct {
	Item  *Item
	Chunk *ChunkPlan
}

// Group kinds for the summary.
type SummaryGroup struct {
	Op       byte          // OpSchema, OpChannel, OpStatistics, OpChunkIndex, OpAttachmentIndex, OpMetadataIndex, or an unknown opcode
	Unknown  []*UnknownRec // for unknown opcodes: the records of the group
	TrailFn  func(i int) []byte
	EmptyCMC bool // statistics: emit an empty channel_message_counts map
}

type Plan struct {
	SkipMagic          bool
	Header             Header
	HeaderTrail        []byte
	Data               []Elem
	Summary            []SummaryGroup // in emission order; a group with no records is not emitted
	SummaryOffsets     bool
	SummaryOffsetTrail []byte
	// Unknown records between the summary offset section... are not representable; unknown groups go in Summary.
	NoDataCRC, NoSummaryCRC bool
	Custom                  map[string]func([]byte) ([]byte, error) // compressors by name
	// StatsChannelOrder controls channel_message_counts order: false = first message seen.
}

// Encoded is the result of Encode with bookkeeping the monitors use.
type Encoded struct {
	Bytes  []byte
	Chunks []EncodedChunk
}

type EncodedChunk struct {
	Offset, Length int
	Start, End     uint64
	NumMessages    int
}

func withTrail(body, trail []byte) []byte {
	if len(trail) == 0 {
		return body
	}
	return append(append([]byte(nil), body...), trail...)
}

func itemRecord(it *Item, inChunk bool) []byte {
	switch {
	case it.Schema != nil:
		return Record(OpSchema, withTrail(it.Schema.Body(), it.Trailing))
	case it.Channel != nil:
		return Record(OpChannel, withTrail(it.Channel.Body(), it.Trailing))
	case it.Message != nil:
		return Record(OpMessage, it.Message.Body())
	case it.Attachment != nil:
		return Record(OpAttachment, withTrail(it.Attachment.Body(false), it.Trailing))
	case it.Metadata != nil:
		return Record(OpMetadata, withTrail(it.Metadata.Body(), it.Trailing))
	case it.Unknown != nil:
		return Record(it.Unknown.Op, it.Unknown.Body)
	}
	panic("empty item")
}

// Encode turns a plan into a spec-valid file, computing every offset, length, time and CRC.
func Encode(p *Plan) (*Encoded, error) {
	res := &Encoded{}
	var out []byte
	if !p.SkipMagic {
		out = append(out, Magic...)
	}
	out = append(out, Record(OpHeader, withTrail(p.Header.Body(), p.HeaderTrail))...)

	var schemas []*Schema
	var channels []*Channel
	schemaSeen := map[uint16]bool{}
	channelSeen := map[uint16]bool{}
	var stats Statistics
	cmc := map[uint16]int{}
	var chunkIdx []*ChunkIndex
	var attIdx []*AttachmentIndex
	var metaIdx []*MetadataIndex
	noteSchema := func(s *Schema) {
		if !schemaSeen[s.ID] {
			schemaSeen[s.ID] = true
			schemas = append(schemas, s)
		}
	}
	noteChannel := func(c *Channel) {
		if !channelSeen[c.ID] {
			channelSeen[c.ID] = true
			channels = append(channels, c)
		}
	}
	noteMessage := func(m *Message) {
		if stats.MessageCount == 0 || m.LogTime < stats.MessageStartTime {
			stats.MessageStartTime = m.LogTime
		}
		if stats.MessageCount == 0 || m.LogTime > stats.MessageEndTime {
			stats.MessageEndTime = m.LogTime
		}
		stats.MessageCount++
		i, ok := cmc[m.ChannelID]
		if !ok {
			i = len(stats.ChannelMessageCounts)
			cmc[m.ChannelID] = i
			stats.ChannelMessageCounts = append(stats.ChannelMessageCounts, U16U64{m.ChannelID, 0})
		}
		stats.ChannelMessageCounts[i].V++
	}

	for ei := range p.Data {
		e := &p.Data[ei]
		if e.Item != nil {
			it := e.Item
			off := len(out)
			rec := itemRecord(it, false)
			out = append(out, rec...)
			switch {
			case it.Schema != nil:
				noteSchema(it.Schema)
			case it.Channel != nil:
				noteChannel(it.Channel)
			case it.Message != nil:
				noteMessage(it.Message)
			case it.Attachment != nil:
				a := it.Attachment
				stats.AttachmentCount++
				attIdx = append(attIdx, &AttachmentIndex{Offset: uint64(off), Length: uint64(len(rec)), LogTime: a.LogTime, CreateTime: a.CreateTime, DataSize: uint64(len(a.Data)), Name: a.Name, MediaType: a.MediaType})
			case it.Metadata != nil:
				stats.MetadataCount++
				metaIdx = append(metaIdx, &MetadataIndex{Offset: uint64(off), Length: uint64(len(rec)), Name: it.Metadata.Name})
			}
			continue
		}
		cp := e.Chunk
		var raw []byte
		type idxRec struct {
			id      uint16
			entries []MessageIndexEntry
		}
		var idx []*idxRec
		idxOf := map[uint16]*idxRec{}
		getIdx := func(id uint16) *idxRec {
			if r, ok := idxOf[id]; ok {
				return r
			}
			r := &idxRec{id: id}
			idxOf[id] = r
			idx = append(idx, r)
			return r
		}
		var cstart, cend uint64
		nmsg := 0
		for ii := range cp.Items {
			it := &cp.Items[ii]
			switch {
			case it.Schema != nil:
				noteSchema(it.Schema)
			case it.Channel != nil:
				noteChannel(it.Channel)
				if cp.Midx == MidxAllChannels {
					getIdx(it.Channel.ID)
				}
			case it.Message != nil:
				m := it.Message
				noteMessage(m)
				if nmsg == 0 || m.LogTime < cstart {
					cstart = m.LogTime
				}
				if nmsg == 0 || m.LogTime > cend {
					cend = m.LogTime
				}
				nmsg++
				if cp.Midx != MidxNone {
					r := getIdx(m.ChannelID)
					r.entries = append(r.entries, MessageIndexEntry{m.LogTime, uint64(len(raw))})
				}
			case it.Unknown != nil:
			default:
				return nil, fmt.Errorf("attachment/metadata cannot be inside a chunk")
			}
			raw = append(raw, itemRecord(it, true)...)
		}
		stored, err := Compress(cp.Compression, raw, p.Custom)
		if err != nil {
			return nil, err
		}
		body := appU64(nil, cstart)
		body = appU64(body, cend)
		body = appU64(body, uint64(len(raw)))
		if cp.ZeroCRC {
			body = appU32(body, 0)
		} else {
			body = appU32(body, crc32.ChecksumIEEE(raw))
		}
		body = appStr(body, cp.Compression)
		body = appU64(body, uint64(len(stored)))
		body = append(body, stored...)
		cso := len(out)
		rec := Record(OpChunk, body)
		out = append(out, rec...)
		stats.ChunkCount++
		ci := &ChunkIndex{MessageStartTime: cstart, MessageEndTime: cend, ChunkStartOffset: uint64(cso), ChunkLength: uint64(len(rec)),
			Compression: cp.Compression, CompressedSize: uint64(len(stored)), UncompressedSize: uint64(len(raw))}
		for _, r := range idx {
			ci.MessageIndexOffsets = append(ci.MessageIndexOffsets, U16U64{r.id, uint64(len(out))})
			mi := &MessageIndex{ChannelID: r.id, Entries: r.entries}
			mrec := Record(OpMessageIndex, withTrail(mi.Body(), cp.MidxTrail))
			out = append(out, mrec...)
			ci.MessageIndexLength += uint64(len(mrec))
		}
		chunkIdx = append(chunkIdx, ci)
		res.Chunks = append(res.Chunks, EncodedChunk{Offset: cso, Length: len(rec), Start: cstart, End: cend, NumMessages: nmsg})
	}
	stats.SchemaCount = uint16(len(schemas))
	stats.ChannelCount = uint32(len(channels))

	// DataEnd
	var dcrc uint32
	if !p.NoDataCRC {
		dcrc = crc32.ChecksumIEEE(out)
	}
	out = append(out, Record(OpDataEnd, appU32(nil, dcrc))...)
	summaryStart := len(out)
	type span struct {
		op         byte
		start, len int
	}
	var spans []span
	for _, g := range p.Summary {
		a := len(out)
		trail := func(i int) []byte {
			if g.TrailFn != nil {
				return g.TrailFn(i)
			}
			return nil
		}
		switch g.Op {
		case OpSchema:
			for i, s := range schemas {
				out = append(out, Record(OpSchema, withTrail(s.Body(), trail(i)))...)
			}
		case OpChannel:
			for i, c := range channels {
				out = append(out, Record(OpChannel, withTrail(c.Body(), trail(i)))...)
			}
		case OpStatistics:
			st := stats
			if g.EmptyCMC {
				st.ChannelMessageCounts = nil
			}
			out = append(out, Record(OpStatistics, withTrail(st.Body(), trail(0)))...)
		case OpChunkIndex:
			for i, c := range chunkIdx {
				out = append(out, Record(OpChunkIndex, withTrail(c.Body(), trail(i)))...)
			}
		case OpAttachmentIndex:
			for i, c := range attIdx {
				out = append(out, Record(OpAttachmentIndex, withTrail(c.Body(), trail(i)))...)
			}
		case OpMetadataIndex:
			for i, c := range metaIdx {
				out = append(out, Record(OpMetadataIndex, withTrail(c.Body(), trail(i)))...)
			}
		default:
			for _, u := range g.Unknown {
				out = append(out, Record(u.Op, u.Body)...)
			}
		}
		if len(out) > a {
			spans = append(spans, span{g.Op, a, len(out) - a})
		}
	}
	hasSummary := len(out) != summaryStart
	sos := 0
	if p.SummaryOffsets {
		sos = len(out)
		n := 0
		for _, s := range spans {
			so := &SummaryOffset{GroupOpcode: s.op, GroupStart: uint64(s.start), GroupLength: uint64(s.len)}
			out = append(out, Record(OpSummaryOffset, withTrail(so.Body(), p.SummaryOffsetTrail))...)
			n++
		}
		if n == 0 {
			sos = 0
		}
	}
	ft := &Footer{SummaryOffsetStart: uint64(sos)}
	if hasSummary {
		ft.SummaryStart = uint64(summaryStart)
	}
	pre := append([]byte{OpFooter}, appU64(nil, 20)...)
	pre = append(pre, ft.BodyPrefix()...)
	out = append(out, pre...)
	var scrc uint32
	if !p.NoSummaryCRC {
		scrc = crc32.ChecksumIEEE(out[summaryStart:])
	}
	out = appU32(out, scrc)
	out = append(out, Magic...)
	res.Bytes = out
	return res, nil
}
