package refmcap

import (
	"bytes"
	"encoding/binary"
	"errors"
	"fmt"
	"io"

	"github.com/klauspost/compress/zstd"
	"github.com/pierrec/lz4/v4"
)

var le = binary.LittleEndian

// Field locates one integer field (including length prefixes) inside a record body.
type Field struct {
	Off   int
	Width int
	Name  string
	Value uint64
}

type cur struct {
	b    []byte
	off  int
	err  error
	base int      // offset of b[0] inside the enclosing record body
	rec  *[]Field // when non-nil every integer read is recorded
}

func (c *cur) note(width int, name string, v uint64) {
	if c.rec != nil {
		*c.rec = append(*c.rec, Field{Off: c.base + c.off - width, Width: width, Name: name, Value: v})
	}
}

func (c *cur) fail(what string) {
	if c.err == nil {
		c.err = fmt.Errorf("short body reading %s at %d/%d", what, c.off, len(c.b))
	}
}
func (c *cur) u8(what string) byte {
	if c.err != nil || len(c.b)-c.off < 1 {
		c.fail(what)
		return 0
	}
	v := c.b[c.off]
	c.off++
	c.note(1, what, uint64(v))
	return v
}
func (c *cur) u16(what string) uint16 {
	if c.err != nil || len(c.b)-c.off < 2 {
		c.fail(what)
		return 0
	}
	v := le.Uint16(c.b[c.off:])
	c.off += 2
	c.note(2, what, uint64(v))
	return v
}
func (c *cur) u32(what string) uint32 {
	if c.err != nil || len(c.b)-c.off < 4 {
		c.fail(what)
		return 0
	}
	v := le.Uint32(c.b[c.off:])
	c.off += 4
	c.note(4, what, uint64(v))
	return v
}
func (c *cur) u64(what string) uint64 {
	if c.err != nil || len(c.b)-c.off < 8 {
		c.fail(what)
		return 0
	}
	v := le.Uint64(c.b[c.off:])
	c.off += 8
	c.note(8, what, v)
	return v
}
func (c *cur) bytesN(n uint64, what string) []byte {
	if c.err != nil || uint64(len(c.b)-c.off) < n {
		c.fail(what)
		return nil
	}
	v := c.b[c.off : c.off+int(n)]
	c.off += int(n)
	return v
}
func (c *cur) str(what string) string {
	n := c.u32(what + ".len")
	return string(c.bytesN(uint64(n), what))
}
func (c *cur) strmap(what string) []KV {
	n := c.u32(what + ".len")
	body := c.bytesN(uint64(n), what)
	if c.err != nil {
		return nil
	}
	in := &cur{b: body, base: c.base + c.off - len(body), rec: c.rec}
	var out []KV
	for in.off < len(in.b) && in.err == nil {
		k := in.str(what + ".key")
		v := in.str(what + ".value")
		if in.err == nil {
			out = append(out, KV{k, v})
		}
	}
	if in.err != nil {
		c.err = in.err
	}
	return out
}
func (c *cur) u16u64map(what string) []U16U64 {
	n := c.u32(what + ".len")
	body := c.bytesN(uint64(n), what)
	if c.err != nil {
		return nil
	}
	if len(body)%10 != 0 {
		c.err = fmt.Errorf("%s byte length %d not a multiple of 10", what, len(body))
		return nil
	}
	var out []U16U64
	start := c.base + c.off - len(body)
	for i := 0; i < len(body); i += 10 {
		out = append(out, U16U64{le.Uint16(body[i:]), le.Uint64(body[i+2:])})
		if c.rec != nil {
			*c.rec = append(*c.rec, Field{start + i, 2, what + ".key", uint64(le.Uint16(body[i:]))}, Field{start + i + 2, 8, what + ".value", le.Uint64(body[i+2:])})
		}
	}
	return out
}

// ParseBody parses a record body strictly by the spec's field tables. Unknown opcodes give (nil,0,nil).
func ParseBody(op byte, body []byte) (parsed any, extra int, err error) {
	return parseBody(op, body, nil)
}

// BodyFields lists every integer field of a record body with its position (empty for unknown opcodes
// and bodies that do not parse).
func BodyFields(op byte, body []byte) []Field {
	var fs []Field
	if _, _, err := parseBody(op, body, &fs); err != nil {
		return fs // the fields read before the failure are still useful mutation targets
	}
	return fs
}

func parseBody(op byte, body []byte, rec *[]Field) (parsed any, extra int, err error) {
	c := &cur{b: body, rec: rec}
	switch op {
	case OpHeader:
		v := &Header{}
		v.Profile = c.str("profile")
		v.Library = c.str("library")
		parsed = v
	case OpFooter:
		v := &Footer{}
		v.SummaryStart = c.u64("summary_start")
		v.SummaryOffsetStart = c.u64("summary_offset_start")
		v.SummaryCRC = c.u32("summary_crc")
		parsed = v
	case OpSchema:
		v := &Schema{}
		v.ID = c.u16("id")
		v.Name = c.str("name")
		v.Encoding = c.str("encoding")
		n := c.u32("data.len")
		v.Data = c.bytesN(uint64(n), "data")
		parsed = v
	case OpChannel:
		v := &Channel{}
		v.ID = c.u16("id")
		v.SchemaID = c.u16("schema_id")
		v.Topic = c.str("topic")
		v.MessageEncoding = c.str("message_encoding")
		v.Metadata = c.strmap("metadata")
		parsed = v
	case OpMessage:
		v := &Message{}
		v.ChannelID = c.u16("channel_id")
		v.Sequence = c.u32("sequence")
		v.LogTime = c.u64("log_time")
		v.PublishTime = c.u64("publish_time")
		if c.err == nil {
			v.Data = c.b[c.off:]
			c.off = len(c.b)
		}
		parsed = v
	case OpChunk:
		v := &Chunk{}
		v.MessageStartTime = c.u64("message_start_time")
		v.MessageEndTime = c.u64("message_end_time")
		v.UncompressedSize = c.u64("uncompressed_size")
		v.UncompressedCRC = c.u32("uncompressed_crc")
		v.Compression = c.str("compression")
		n := c.u64("records.len")
		v.RecordsOff = c.off
		v.Records = c.bytesN(n, "records")
		parsed = v
	case OpMessageIndex:
		v := &MessageIndex{}
		v.ChannelID = c.u16("channel_id")
		n := c.u32("records.len")
		b := c.bytesN(uint64(n), "records")
		if c.err == nil {
			if len(b)%16 != 0 {
				c.err = fmt.Errorf("message index array length %d not a multiple of 16", len(b))
			}
			for i := 0; i+16 <= len(b); i += 16 {
				v.Entries = append(v.Entries, MessageIndexEntry{le.Uint64(b[i:]), le.Uint64(b[i+8:])})
				if rec != nil {
					start := c.off - len(b)
					*rec = append(*rec, Field{start + i, 8, "entry.log_time", le.Uint64(b[i:])}, Field{start + i + 8, 8, "entry.offset", le.Uint64(b[i+8:])})
				}
			}
		}
		parsed = v
	case OpChunkIndex:
		v := &ChunkIndex{}
		v.MessageStartTime = c.u64("message_start_time")
		v.MessageEndTime = c.u64("message_end_time")
		v.ChunkStartOffset = c.u64("chunk_start_offset")
		v.ChunkLength = c.u64("chunk_length")
		v.MessageIndexOffsets = c.u16u64map("message_index_offsets")
		v.MessageIndexLength = c.u64("message_index_length")
		v.Compression = c.str("compression")
		v.CompressedSize = c.u64("compressed_size")
		v.UncompressedSize = c.u64("uncompressed_size")
		parsed = v
	case OpAttachment:
		v := &Attachment{}
		v.LogTime = c.u64("log_time")
		v.CreateTime = c.u64("create_time")
		v.Name = c.str("name")
		v.MediaType = c.str("media_type")
		n := c.u64("data.len")
		v.Data = c.bytesN(n, "data")
		v.CRC = c.u32("crc")
		v.CRCEnd = c.off
		parsed = v
	case OpAttachmentIndex:
		v := &AttachmentIndex{}
		v.Offset = c.u64("offset")
		v.Length = c.u64("length")
		v.LogTime = c.u64("log_time")
		v.CreateTime = c.u64("create_time")
		v.DataSize = c.u64("data_size")
		v.Name = c.str("name")
		v.MediaType = c.str("media_type")
		parsed = v
	case OpStatistics:
		v := &Statistics{}
		v.MessageCount = c.u64("message_count")
		v.SchemaCount = c.u16("schema_count")
		v.ChannelCount = c.u32("channel_count")
		v.AttachmentCount = c.u32("attachment_count")
		v.MetadataCount = c.u32("metadata_count")
		v.ChunkCount = c.u32("chunk_count")
		v.MessageStartTime = c.u64("message_start_time")
		v.MessageEndTime = c.u64("message_end_time")
		v.ChannelMessageCounts = c.u16u64map("channel_message_counts")
		parsed = v
	case OpMetadata:
		v := &Metadata{}
		v.Name = c.str("name")
		v.Metadata = c.strmap("metadata")
		parsed = v
	case OpMetadataIndex:
		v := &MetadataIndex{}
		v.Offset = c.u64("offset")
		v.Length = c.u64("length")
		v.Name = c.str("name")
		parsed = v
	case OpSummaryOffset:
		v := &SummaryOffset{}
		v.GroupOpcode = c.u8("group_opcode")
		v.GroupStart = c.u64("group_start")
		v.GroupLength = c.u64("group_length")
		parsed = v
	case OpDataEnd:
		v := &DataEnd{}
		v.DataSectionCRC = c.u32("data_section_crc")
		parsed = v
	default:
		return nil, 0, nil
	}
	if c.err != nil {
		return nil, 0, c.err
	}
	return parsed, len(c.b) - c.off, nil
}

// SplitRecords walks b as a sequence of <op><len><content> and returns the records found.
// base is added to nothing: offsets are relative to b. The returned error describes the first
// structural problem (record running past the end, fewer than 9 bytes left).
func SplitRecords(b []byte) ([]*Rec, error) {
	var out []*Rec
	off := 0
	for off < len(b) {
		if len(b)-off < 9 {
			return out, fmt.Errorf("%d stray bytes at offset %d (need 9 for a record prefix)", len(b)-off, off)
		}
		op := b[off]
		n := le.Uint64(b[off+1:])
		if n > uint64(len(b)-off-9) {
			return out, fmt.Errorf("record op=0x%02x at %d declares %d content bytes, %d available", op, off, n, len(b)-off-9)
		}
		r := &Rec{Op: op, Off: off, Len: 9 + int(n), Body: b[off+9 : off+9+int(n)]}
		r.Parsed, r.Extra, r.ParseErr = ParseBody(op, r.Body)
		out = append(out, r)
		off += r.Len
	}
	return out, nil
}

// Decompress returns the uncompressed content of a chunk's records field.
// custom maps caller-defined compression names to a decompression function.
func Decompress(compression string, stored []byte, size uint64, custom map[string]func([]byte) ([]byte, error)) ([]byte, error) {
	if f, ok := custom[compression]; ok {
		return f(stored)
	}
	switch compression {
	case "":
		return stored, nil
	case "zstd":
		d, err := zstd.NewReader(nil)
		if err != nil {
			return nil, err
		}
		defer d.Close()
		return d.DecodeAll(stored, nil)
	case "lz4":
		r := lz4.NewReader(bytes.NewReader(stored))
		out, err := io.ReadAll(r)
		if err != nil {
			return nil, err
		}
		return out, nil
	}
	return nil, fmt.Errorf("unknown compression %q", compression)
}

// DecodeOptions configures Decode.
type DecodeOptions struct {
	SkipMagic bool // file has no leading magic (writer's SkipMagic option)
	Custom    map[string]func([]byte) ([]byte, error)
}

// Decode walks data strictly by the grammar. Structural problems that prevent walking are returned
// as error; everything else is for Validate to judge.
func Decode(data []byte, opt *DecodeOptions) (*File, error) {
	if opt == nil {
		opt = &DecodeOptions{}
	}
	f := &File{Data: data, HeaderIdx: -1, DataEndIdx: -1, FooterIdx: -1}
	start := 0
	if !opt.SkipMagic {
		if len(data) < 8 || !bytes.Equal(data[:8], Magic) {
			return nil, errors.New("leading magic missing")
		}
		start = 8
	}
	if len(data)-start < 8 || !bytes.Equal(data[len(data)-8:], Magic) {
		return nil, errors.New("trailing magic missing")
	}
	recs, err := SplitRecords(data[start : len(data)-8])
	for _, r := range recs {
		r.Off += start
	}
	f.Recs = recs
	if err != nil {
		return f, fmt.Errorf("top-level record walk: %w", err)
	}
	for i, r := range recs {
		switch r.Op {
		case OpHeader:
			if f.HeaderIdx < 0 {
				f.HeaderIdx = i
			}
		case OpDataEnd:
			if f.DataEndIdx < 0 {
				f.DataEndIdx = i
			}
		case OpFooter:
			f.FooterIdx = i
		case OpChunk:
			if ch, ok := r.Parsed.(*Chunk); ok {
				ch.RecordsOff += r.Off + 9
				ch.Uncompressed, ch.DecompErr = Decompress(ch.Compression, ch.Records, ch.UncompressedSize, opt.Custom)
				if ch.DecompErr == nil {
					ch.Inner, ch.InnerErr = SplitRecords(ch.Uncompressed)
				}
			}
		}
	}
	return f, nil
}

// Chunks returns the chunk records in file order.
func (f *File) Chunks() []*Rec {
	var out []*Rec
	for _, r := range f.Recs {
		if r.Op == OpChunk {
			out = append(out, r)
		}
	}
	return out
}

// RecAt returns the top-level record starting at absolute offset off, or nil.
func (f *File) RecAt(off uint64) *Rec {
	// binary search would do; files are small
	for _, r := range f.Recs {
		if uint64(r.Off) == off {
			return r
		}
	}
	return nil
}
