// Package refmcap is an independent MCAP codec written from website/docs/spec/index.md.
// It does not import github.com/foxglove/mcap/go/mcap and shares no code with it.
// Trusted base: the specification text, hash/crc32 and the third-party zstd / lz4 codecs.
package refmcap

import "fmt"

var Magic = []byte{0x89, 'M', 'C', 'A', 'P', 0x30, '\r', '\n'}

const (
	OpHeader          = 0x01
	OpFooter          = 0x02
	OpSchema          = 0x03
	OpChannel         = 0x04
	OpMessage         = 0x05
	OpChunk           = 0x06
	OpMessageIndex    = 0x07
	OpChunkIndex      = 0x08
	OpAttachment      = 0x09
	OpAttachmentIndex = 0x0A
	OpStatistics      = 0x0B
	OpMetadata        = 0x0C
	OpMetadataIndex   = 0x0D
	OpSummaryOffset   = 0x0E
	OpDataEnd         = 0x0F
)

func OpName(op byte) string {
	switch op {
	case OpHeader:
		return "Header"
	case OpFooter:
		return "Footer"
	case OpSchema:
		return "Schema"
	case OpChannel:
		return "Channel"
	case OpMessage:
		return "Message"
	case OpChunk:
		return "Chunk"
	case OpMessageIndex:
		return "MessageIndex"
	case OpChunkIndex:
		return "ChunkIndex"
	case OpAttachment:
		return "Attachment"
	case OpAttachmentIndex:
		return "AttachmentIndex"
	case OpStatistics:
		return "Statistics"
	case OpMetadata:
		return "Metadata"
	case OpMetadataIndex:
		return "MetadataIndex"
	case OpSummaryOffset:
		return "SummaryOffset"
	case OpDataEnd:
		return "DataEnd"
	}
	return fmt.Sprintf("Op%02x", op)
}

// KV is one entry of a Map<string,string>, kept in serialisation order.
type KV struct{ K, V string }

// U16U64 is one entry of a Map<uint16,uint64>, kept in serialisation order.
type U16U64 struct {
	K uint16
	V uint64
}

type Header struct{ Profile, Library string }

type Footer struct {
	SummaryStart       uint64
	SummaryOffsetStart uint64
	SummaryCRC         uint32
}

type Schema struct {
	ID       uint16
	Name     string
	Encoding string
	Data     []byte
}

type Channel struct {
	ID              uint16
	SchemaID        uint16
	Topic           string
	MessageEncoding string
	Metadata        []KV
}

type Message struct {
	ChannelID   uint16
	Sequence    uint32
	LogTime     uint64
	PublishTime uint64
	Data        []byte
}

type Chunk struct {
	MessageStartTime uint64
	MessageEndTime   uint64
	UncompressedSize uint64
	UncompressedCRC  uint32
	Compression      string
	Records          []byte // as stored (compressed)
	RecordsOff       int    // absolute offset of the stored records field
	// filled by the decoder when decompression succeeded
	Uncompressed []byte
	DecompErr    error
	Inner        []*Rec // records inside the chunk; Off is relative to the uncompressed data
	InnerErr     error
}

type MessageIndexEntry struct{ LogTime, Offset uint64 }

type MessageIndex struct {
	ChannelID uint16
	Entries   []MessageIndexEntry
}

type ChunkIndex struct {
	MessageStartTime    uint64
	MessageEndTime      uint64
	ChunkStartOffset    uint64
	ChunkLength         uint64
	MessageIndexOffsets []U16U64
	MessageIndexLength  uint64
	Compression         string
	CompressedSize      uint64
	UncompressedSize    uint64
}

type Attachment struct {
	LogTime    uint64
	CreateTime uint64
	Name       string
	MediaType  string
	Data       []byte
	CRC        uint32
	// CRCEnd is the offset inside the record body where the crc field ends.
	CRCEnd int
}

type AttachmentIndex struct {
	Offset     uint64
	Length     uint64
	LogTime    uint64
	CreateTime uint64
	DataSize   uint64
	Name       string
	MediaType  string
}

type Statistics struct {
	MessageCount         uint64
	SchemaCount          uint16
	ChannelCount         uint32
	AttachmentCount      uint32
	MetadataCount        uint32
	ChunkCount           uint32
	MessageStartTime     uint64
	MessageEndTime       uint64
	ChannelMessageCounts []U16U64
}

type Metadata struct {
	Name     string
	Metadata []KV
}

type MetadataIndex struct {
	Offset uint64
	Length uint64
	Name   string
}

type SummaryOffset struct {
	GroupOpcode byte
	GroupStart  uint64
	GroupLength uint64
}

type DataEnd struct{ DataSectionCRC uint32 }

// Rec is one record with its position.
type Rec struct {
	Op   byte
	Off  int    // offset of the opcode byte (absolute for top-level, relative to uncompressed chunk data inside chunks)
	Len  int    // total record length including the 9-byte prefix
	Body []byte // record content
	// Parsed is one of the *T types above, or nil for unknown opcodes / unparsable bodies.
	Parsed   any
	ParseErr error
	// Extra is the number of bytes in Body after the last field the spec defines.
	Extra int
}

func (r *Rec) End() int { return r.Off + r.Len }

// File is the decoded form of a byte string.
type File struct {
	Data []byte
	Recs []*Rec // top-level records in file order
	// indexes into Recs; -1 when absent
	HeaderIdx, DataEndIdx, FooterIdx int
	Problems                         []string
}
