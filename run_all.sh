#!/bin/bash
# usage: run_all.sh <quick|thorough> [ids...]   (VERIF_SEED honoured)
tier=${1:-quick}; shift
ids=${@:-C01 C02 C03 C04 C05 C06 C07 C08 C09 C10 C11 C12 C13 C14 C15 C16 C17 C18 C19 C20}
cd "$(dirname "$(readlink -f "$0")")"
for id in $ids; do
  s=$(date +%s)
  out=$(./check $id $tier 2>&1); rc=$?
  e=$(( $(date +%s) - s ))
  echo "$id rc=$rc ${e}s :: $(echo "$out" | tail -1)"
  if [ $rc -ne 0 ]; then echo "$out" | grep -E "VIOLATION|INCONCLUSIVE|KNOWN|BUILD|kind=" | head -8; fi
done
