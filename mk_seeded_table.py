#!/usr/bin/env python3
"""Rewrites the seeded-changes table in DESIGN.md (between the SEEDED-TABLE markers) from seeded/*/meta.json."""
import json,glob,os,re
rows=[]
n=caught=0
for d in sorted(glob.glob('/verif/seeded/*/meta.json')):
    m=json.load(open(d)); name=os.path.basename(os.path.dirname(d)); c=m.get('confirmed',{})
    summ=m.get('summary','').replace('\n',' ').replace('|','/')
    summ=summ[:217]+'...' if len(summ)>220 else summ
    needs=m.get('needs','').replace('\n',' ').replace('|','/')
    needs=needs[:147]+'...' if len(needs)>150 else needs
    cb=', '.join(c.get('caught_by',[])) or '-'
    mb=', '.join(c.get('missed_by',[])) or '-'
    n+=1; caught+= 1 if c.get('caught_by') else 0
    rows.append(f"| {name} | {summ} | {needs} | {cb} | {mb} |")
table="<!-- SEEDED-TABLE-BEGIN -->\n| Seed | What was changed | Needs | Reported by (quick tier, seed 1, current checks) | Run but silent |\n| --- | --- | --- | --- | --- |\n"+"\n".join(rows)+f"\n\n{n} seeded changes kept; {caught} reported by at least one check as the checks stand now.\n<!-- SEEDED-TABLE-END -->"
s=open('/verif/DESIGN.md').read()
if 'SEEDED-TABLE-BEGIN' in s:
    s=re.sub(r'<!-- SEEDED-TABLE-BEGIN -->.*<!-- SEEDED-TABLE-END -->', lambda _: table, s, flags=re.S)
else:
    i=s.index('| Seed | Files | What was changed |')
    j=s.index('\n\n', i)
    s=s[:i]+table+s[j:]
open('/verif/DESIGN.md','w').write(s)
print(n,caught)
