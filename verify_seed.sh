#!/bin/bash
# Confirms a seeded change: patch applies, tree compiles, the pinned suite still passes with it,
# the demonstration passes without the change and fails with it.
# usage: verify_seed.sh <dir with patch.diff, demo_test.go|demo/, meta.json>
d=$(readlink -f "$1")
export GOPROXY=off GOSUMDB=off GOTOOLCHAIN=local
unset GOFLAGS GOWORK
n=vs$$_$RANDOM; wt=/tmp/mt/$n; mkdir -p /tmp/mt
git -C /repo worktree add -q --detach "$wt" HEAD || exit 3
trap 'git -C /repo worktree remove --force "$wt" 2>/dev/null' EXIT
demo_dir=$(python3 -c "import json,sys; print(json.load(open('$d/meta.json')).get('demo_dir','go/mcap'))")
demo_cmd=$(python3 -c "import json,sys; print(json.load(open('$d/meta.json')).get('demo_cmd','go test -count=1 -run TestDemo ./...'))")
cp "$d"/demo_test.go "$wt/$demo_dir/zz_demo_test.go" 2>/dev/null || { echo "no demo_test.go (custom demo) - verify by hand"; }
run_demo() { (cd "$wt/$demo_dir" && timeout 600 bash -c "$demo_cmd" >/tmp/mt/$n.demo 2>&1; echo $?); }
r0=$(run_demo)
git -C "$wt" apply "$d/patch.diff" || { echo "RESULT patch does not apply"; exit 1; }
(cd "$wt/go/mcap" && go build ./... ) && (cd "$wt/go/ros" && go build ./...) || { echo "RESULT does not compile"; exit 1; }
r1=$(run_demo)
rm -f "$wt/$demo_dir/zz_demo_test.go"
# pinned suite with the change
out=/tmp/mt/$n.json
for m in go/mcap go/ros go/conformance/test-read-conformance go/conformance/test-write-conformance; do (cd "$wt/$m" && go test -json -vet=off -count=1 -timeout 25m ./... ); done > $out 2>&1
suite=$(python3 - $out <<'PY'
import json,sys
want=set(json.load(open('/root/.vp/BASELINE.json'))['stable_pass'])
got=set()
for line in open(sys.argv[1]):
    try: e=json.loads(line)
    except Exception: continue
    if e.get('Test') and e.get('Action')=='pass': got.add(e['Package']+'::'+e['Test'])
missing=sorted(want-got)
print("suite_ok" if not missing else "suite_broken:"+",".join(missing[:5]))
PY
)
rm -f $out /tmp/mt/$n.demo
echo "RESULT demo_without_change_exit=$r0 demo_with_change_exit=$r1 $suite"
[ "$r0" = 0 ] && [ "$r1" != 0 ] && [ "$suite" = suite_ok ]
