#!/usr/bin/env python3
"""Regenerates /verif/MANIFEST.json from the table below (kept in one place so it stays valid)."""
import json, subprocess

BASELINE = json.load(open('/root/.vp/BASELINE.json'))

# id -> (category, technique, level text, level note, design ref)
CHECKS = {
 "C01": ("exploration", "reference-model monitor over a recorded call log (round trip through lexer and sequential iterator) + aliasing snapshots",
         "Held on N seeded (workload, configuration) executions of the real writer/readers; the evidence lists how many and of what shape. Exploration is the right level: the property quantifies over unbounded inputs x configurations and the code is single-threaded, so reach comes from input diversity.",
         "Call log recorded by the harness driver is ground truth; custom compression via lexer only; generator bounds in DESIGN.md section 3/C01.", "3/C01"),
 "C05": ("exploration", "independent spec-derived decoder/validator watching the bytes delivered to the sink",
         "Every record of every produced file is re-derived by a decoder that shares no code with go/mcap; held on the files listed in the evidence.",
         "Reference decoder faithful to the spec (pinned by reproducing 416 conformance binaries bit-for-bit); zstd/lz4 codecs trusted.", "3/C05"),
 "C06": ("exploration", "independent CRC-32 recomputation over spec byte ranges of sink bytes",
         "All CRC fields of all produced files recomputed with hash/crc32; held on the files listed in the evidence.",
         "hash/crc32 and the reference decoder's record positions.", "3/C06"),
 "C08": ("exploration", "aggregate reference model over the call log vs Writer.Statistics, statistics record and Reader.Info",
         "Aggregates recomputed from the call log and compared with the three observation points on seeded and targeted stateful workloads.",
         "Call log is ground truth; chunk count and summary groups from the reference decoder.", "3/C08"),
}

NOT_YET = {}

def main():
    props = [json.loads(l) for l in open('/verif/properties.jsonl')]
    checks = []
    na = []
    for p in props:
        pid = p['id']
        if pid in CHECKS:
            cat, tech, text, note, ref = CHECKS[pid]
            checks.append({
                "property_id": pid,
                "quick_cmd": f"./check {pid} quick",
                "thorough_cmd": f"./check {pid} thorough",
                "evidence_file": f"/verif/evidence/{pid}.json",
                "replay_cmd_template": f"./check {pid} quick --replay {{path}}",
                "engine": "verifharness",
                "level_claimed": {"category": cat, "text": text, "design_ref": "DESIGN.md section " + ref},
                "level_note": note,
                "technique": tech,
            })
        else:
            na.append({"property_id": pid, "reason": NOT_YET.get(pid, "check not built yet in this session (planned: runtime monitor per DESIGN.md section 3); not claimed until it exists")})
    hooks_commits = subprocess.run(['git','-C','/repo','log','--format=%H %s'],capture_output=True,text=True).stdout.splitlines()
    hook_shas = [l.split()[0] for l in hooks_commits if ' verif-hook:' in l or l.split(' ',1)[1].startswith('verif hook')]
    m = {
        "version": 1,
        "setup_cmd": "cd /verif && export GOFLAGS=-mod=mod GOPROXY=off GOSUMDB=off GOTOOLCHAIN=local GOWORK=off && mkdir -p bin evidence replay && cd harness && go build -tags verif -o ../bin/verif ./cmd/verif",
        "hooks": {
            "guard": "verif",
            "enable": "go build -tags verif (the harness module replaces github.com/foxglove/mcap/go/{mcap,ros} by /repo/go/{mcap,ros})",
            "baseline_off_cmd": BASELINE["cmd"],
            "source_commits": hook_shas,
            "add_only": True,
        },
        "engines": [{"name": "verifharness", "path": "/verif/harness", "serves_properties": sorted(CHECKS), "kind_free_text": "Go module: reference MCAP codec, seeded workload generators, fault-injecting I/O wrappers, one runtime monitor per property, isolated worker process"}],
        "checks": checks,
        "notes": "All checks: ./check <ID> <quick|thorough>; VERIF_SEED selects the PRNG stream; known findings in /verif/known_findings.json.",
        "not_applicable": na,
    }
    json.dump(m, open('/verif/MANIFEST.json','w'), indent=1)
    print("checks:", len(checks), "not_applicable:", len(na))

main()
