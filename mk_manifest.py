#!/usr/bin/env python3
"""Regenerates /verif/MANIFEST.json from the table below (kept in one place so it stays valid)."""
import json, subprocess

BASELINE = json.load(open('/root/.vp/BASELINE.json'))

# id -> (category, technique, level text, level note, design ref)
CHECKS = {
 "C01": ("exploration", "reference-model monitor over a recorded call log (round trip through lexer and sequential iterator, unfiltered and with messages skipped by a selection) + aliasing snapshots",
         "Held on N seeded (workload, configuration) executions of the real writer/readers; the evidence lists how many and of what shape. Exploration is the right level: the property quantifies over unbounded inputs x configurations and the code is single-threaded, so reach comes from input diversity.",
         "Call log recorded by the harness driver is ground truth; custom compression via lexer only; generator bounds in DESIGN.md section 3/C01.", "3/C01"),
 "C02": ("exploration", "differential monitor: index-based reads, Info-driven random access and metadata callbacks against the sequential scan and the call log",
         "Every index-based spelling of Messages() is compared with the scan of the same file over all 256 summary-flag combinations; two iterators of one Reader consumed alternately; reads on a Reader that has already served Info(), GetMetadata() or a second Messages() call; fall-back-or-error clause applied outside the indexed precondition (one recorded known finding: topic selection without summary channels).",
         "The sequential scan is judged by C01; time-order correctness by C03.", "3/C02"),
 "C03": ("exploration", "order/exactly-once monitor over unique message ids; small-scope exhaustive enumeration (621435 files in the thorough tier) + random large files",
         "Exhaustive over every file of <= 3 chunks x <= 3 messages x 4 timestamps (thorough), sampled in quick; random large files from two producers; structured files with thousands of queued index entries and hundreds of simultaneously live chunks.",
         "Chunk membership from the reference encoder/decoder; cross-chunk ties unconstrained as in the property.", "3/C03"),
 "C04": ("exploration", "reference filter over the call log vs every window spelling x topic set x read mode",
         "Each read is compared with {m | topic in T and start <= t < end} computed from the call log; time-ordered results also satisfy C03's predicates.",
         "Deprecated int64 options not exercised with end=0 (documented as unset).", "3/C04"),
 "C05": ("exploration", "independent spec-derived decoder/validator watching the bytes delivered to the sink",
         "Every record of every produced file is re-derived by a decoder that shares no code with go/mcap; held on the files listed in the evidence.",
         "Reference decoder faithful to the spec (pinned by reproducing 416 conformance binaries bit-for-bit); zstd/lz4 codecs trusted.", "3/C05"),
 "C06": ("exploration", "independent CRC-32 recomputation over spec byte ranges of sink bytes",
         "All CRC fields of all produced files recomputed with hash/crc32; held on the files listed in the evidence.",
         "hash/crc32 and the reference decoder's record positions.", "3/C06"),
 "C07": ("fault_enumeration", "exhaustive single-bit-flip enumeration of chunk payloads and attachment records + seeded overwrites, observed through the validating lexer",
         "Every bit of every byte of every chunk payload / attachment record of the enumerated files (none/zstd/lz4/custom compressor, incl. message-less chunks) is flipped; the oracle compares what is yielded before the first report with the original records; attachment CRCs are queried in both orders.",
         "Positions from the reference decoder; CRC-32 collisions would be reported (they are violations).", "3/C07"),
 "C08": ("exploration", "aggregate reference model over the call log vs Writer.Statistics, statistics record and Reader.Info",
         "Aggregates recomputed from the call log and compared with the three observation points (incl. Info.ChannelCounts per topic) on seeded and targeted stateful workloads.",
         "Call log is ground truth; chunk count and summary groups from the reference decoder.", "3/C08"),
 "C09": ("fault_enumeration", "exhaustive truncation at every byte offset, prefix/completeness oracle over lexer and scan iterator",
         "Every cut position of every enumerated small file x 3 reader configurations; boundary neighbourhoods plus seeded cuts of 1-2 MiB files holding records above 1 MiB and chunks above 64 KiB.",
         "Record boundaries from the reference decoder.", "3/C09"),
 "C10": ("exploration", "isolated child process with address-space cap, CPU watchdog (budget grows with bytes allocated), per-call journal and allocation accounting over structured mutations (hostile constants, off-by-one, values swapped between records) and random bytes",
         "Every public decode entry point on tens of thousands of hostile inputs per run; panics, process deaths, CPU overruns and single allocations >= 2^31 (or above configured limits) are violations.",
         "Inputs <= 64 KiB; allocation attribution via runtime.MemProfile (rate 1) on inputs that allocate >= 2 GiB in one call.", "3/C10"),
 "C11": ("exploration", "differential monitor over offset-free projections of all reader outputs: reference-encoded file vs the same content with unknown records and trailing bytes",
         "Both files are verified spec-valid, then everything the Go readers report is projected to an offset-free form and compared.",
         "Unknown records never placed between a chunk and its message indexes; padded conformance vectors via C17.", "3/C11"),
 "C12": ("exploration", "reference-model monitor: one logical content, many reference-encoded layouts, all reader outputs compared with the content",
         "Exhaustive over chunk partitions of a 6-message content, all 720 summary-group permutations, plus random layouts; the lexer reads from a source that yields the processor before every Read (decompressor read-ahead really runs concurrently).",
         "Every layout is verified spec-valid by the reference validator before use.", "3/C12"),
 "C13": ("exploration", "hash comparison across map orders, processes (GOMAXPROCS 1/2/4/16) and concurrent goroutines under the Go race detector",
         "SHA-256 of outputs compared across runs (message-level calls, and chunk-level copies through WriteChunkWithIndexes); -race binary with 16 goroutines of independent writers/readers, golden digests, race log scanned.",
         "Race detector reports only races on interleavings that occurred.", "3/C13"),
 "C14": ("fault_enumeration", "exhaustive enumeration of failing sink writes (8 failure modes per write index) and failing/short/long attachment sources (several error identities, error alone or with the last bytes)",
         "Every sink write of every enumerated (workload, configuration) is failed in eight ways (no bytes + error / short count + io.ErrShortWrite / all bytes accepted + error / short count + nil error, each once or permanently); the call that hit it must report an error and accepted bytes stay a prefix.",
         "Sinks honour the io.Writer contract; write pattern deterministic (checked).", "3/C14"),
 "C15": ("fault_enumeration", "exhaustive injection of a read error at every byte position and at the end-of-file position (sticky and once; two further calls after a permanent failure), failing seeks, and five delivery schedules, over eight reader configurations",
         "Every byte position of every enumerated file (0..len inclusive) x 2 fault modes x 8 readers; after a permanent failure the reader is asked twice more and may neither return a record nor a clean end.",
         "'Clean EOF' = errors.Is(err, io.EOF).", "3/C15"),
 "C16": ("exploration", "differential monitor across implementations: Go writer -> Python readers and Python writer -> Go readers, compared with the call log",
         "Files exchanged in both directions through /verif/py/interop.py running the repository's Python library (fresh reader per query and one reused SeekingReader instance; Go follows every metadata/attachment index Python wrote).",
         "Only uncompressed files (Python codecs absent); system python3.", "3/C16"),
 "C17": ("exploration", "exhaustive replay of the finite conformance matrix through the two Go tools built from the working tree, inputs pinned by SHA-256",
         "All 416 vectors: read tool on regenerated binaries (pinned to LFS SHA-256), write tool on all descriptions.",
         "Git-LFS pointer SHA-256s identify the upstream binaries.", "3/C17"),
 "C18": ("exploration", "reference-model monitor over generated ROS bags / sqlite databases; corrupt bags in an isolated child process",
         "Conversions compared with the generating model through the reference MCAP decoder; corrupt inputs must return.",
         "Fully indexed generated bags are read back by the independent go-rosbag reader; bz2 bags not generated.", "3/C18"),
 "C19": ("exploration", "reference-model monitor over random type graphs; hostile definitions in an isolated child process (stack cap, CPU watchdog)",
         "Parsed trees compared with the generating graph; hostile inputs (cycles, brackets, random bytes) must return.",
         "Expected-tree semantics follow the parser's documented/tested behaviour for valid input.", "3/C19"),
 "C20": ("exploration", "verif-tagged accessor sampled after every NextInto + live-heap/TotalAlloc accounting around streaming reads and writes",
         "Slot counts against the measured overlap depth on every step; heap growth bounds on files several times larger than the bound; attachment streaming budgets.",
         "Heap measurements taken while nothing else runs in the process; 32 MiB allowance for codec buffers.", "3/C20"),
}

NOT_YET = {}

def main():
    props = [json.loads(l) for l in open('/verif/properties.jsonl')]
    checks = []
    na = []
    for p in props:
        pid = p['id']
        if pid in CHECKS:
            cat, tech, text, note, ref = CHECKS[pid]
            checks.append({
                "property_id": pid,
                "quick_cmd": f"./check {pid} quick",
                "thorough_cmd": f"./check {pid} thorough",
                "evidence_file": f"/verif/evidence/{pid}.json",
                "replay_cmd_template": f"./check {pid} quick --replay {{path}}",
                "engine": "verifharness",
                "level_claimed": {"category": cat, "text": text, "design_ref": "DESIGN.md section " + ref},
                "level_note": note,
                "technique": tech,
            })
        else:
            na.append({"property_id": pid, "reason": NOT_YET.get(pid, "check not built yet in this session (planned: runtime monitor per DESIGN.md section 3); not claimed until it exists")})
    hooks_commits = subprocess.run(['git','-C','/repo','log','--format=%H %s'],capture_output=True,text=True).stdout.splitlines()
    hook_shas = [l.split()[0] for l in hooks_commits if l.split(' ',1)[1].startswith('verif-hook:')]
    m = {
        "version": 1,
        "setup_cmd": "cd /verif && export GOFLAGS=-mod=mod GOPROXY=off GOSUMDB=off GOTOOLCHAIN=local GOWORK=off CGO_ENABLED=1 && mkdir -p bin evidence replay && cd harness && go build -tags verif -o ../bin/verif ./cmd/verif && go build -race -tags verif -o ../bin/verif-race ./cmd/verif",
        "hooks": {
            "guard": "verif",
            "enable": "go build -tags verif (the harness module replaces github.com/foxglove/mcap/go/{mcap,ros} by /repo/go/{mcap,ros})",
            "baseline_off_cmd": BASELINE["cmd"],
            "source_commits": hook_shas,
            "add_only": True,
        },
        "engines": [{"name": "verifharness", "path": "/verif/harness", "serves_properties": sorted(CHECKS), "kind_free_text": "Go module: reference MCAP codec, seeded workload generators, fault-injecting I/O wrappers, one runtime monitor per property, isolated worker process"}],
        "checks": checks,
        "notes": "All checks: ./check <ID> <quick|thorough>; VERIF_SEED selects the PRNG stream; known findings in /verif/known_findings.json.",
        "not_applicable": na,
    }
    json.dump(m, open('/verif/MANIFEST.json','w'), indent=1)
    print("checks:", len(checks), "not_applicable:", len(na))

main()
