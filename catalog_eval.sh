#!/bin/bash
# Runs the Appendix-C single-edit catalogue (patch files in $1, default /tmp/catalog) against the checks
# named in the catalogue and appends one result line per mutant to /verif/seeded/catalogue_results.tsv
dir=${1:-/tmp/catalog}; shift
only="$@"
python3 - "$dir" > /tmp/catalog_map.txt <<'PY'
import re,sys
for line in open(sys.argv[1]+'/catalogue.md'):
    m=re.match(r'\|\s*(\d+)\s*\|(.*)\|\s*([^|]*)\|\s*$',line)
    if m:
        ids=re.findall(r'C\d\d',m.group(3))
        print(m.group(1).zfill(2), ' '.join(dict.fromkeys(ids)))
PY
while read n ids; do
  [ -n "$only" ] && ! echo " $only " | grep -q " $n " && continue
  f=$dir/$n.diff
  [ -f "$f" ] || { echo -e "$n\tNO-PATCH"; continue; }
  res=$(/verif/mt.sh $f quick $ids 2>/dev/null | grep -E "^== " | sed -E 's/^== (C[0-9]+) rc=([0-9]+).*/\1:\2/' | tr '\n' ' ')
  echo -e "$n\t$ids\t$res" | tee -a /verif/seeded/catalogue_results.tsv
done < /tmp/catalog_map.txt
