#!/bin/bash
# Self-test helper: apply a patch to a scratch worktree of /repo and run the given checks against it.
# usage: mt.sh <patch.diff> <tier> <ID> [ID...]      (nothing in /repo or /verif/evidence is modified)
patch=$(readlink -f "$1"); tier=$2; shift 2
n=mt$$_$RANDOM
wt=/tmp/mt/$n
mkdir -p /tmp/mt
git -C /repo worktree add -q --detach "$wt" HEAD || exit 3
V=$(dirname "$(readlink -f "$0")")   # the copy of /verif this script belongs to
tag=$(echo "$wt" | md5sum | cut -c1-10)
trap 'git -C /repo worktree remove --force "$wt" 2>/dev/null; rm -rf /tmp/mt/'$n'-out "$V"/bin/alt-$tag.mod "$V"/bin/alt-$tag.sum' EXIT
if ! git -C "$wt" apply "$patch"; then echo "PATCH-DOES-NOT-APPLY $patch"; exit 3; fi
cd "$V"
for id in "$@"; do
  s=$(date +%s)
  out=$(VERIF_REPO=$wt VERIF_OUT=/tmp/mt/$n-out ./check $id $tier 2>&1); rc=$?
  e=$(( $(date +%s) - s ))
  echo "== $id rc=$rc ${e}s :: $(echo "$out" | tail -1)"
  echo "$out" | grep -E "^VIOLATION|^  kind=|INCONCLUSIVE|BUILD-FAILED" | head -6 | cut -c1-400
done
