#!/bin/bash
# usage: seed_eval.sh <PID> <A|B> <check IDs to run...>
pid=$1; x=$2; shift 2
src=${SEED_SRC:-/tmp/seeded}/$pid/$x
echo "### $pid$x"
v=$(/verif/verify_seed.sh $src 2>&1 | tail -1); echo "verify: $v"
res=$(/verif/mt.sh $src/patch.diff quick "$@" 2>/dev/null)
echo "$res" | grep -E "^== |kind=" | cut -c1-330 | head -12
case "$v" in *"demo_without_change_exit=0 demo_with_change_exit=1 suite_ok"*) ok=1;; *) ok=0;; esac
if [ $ok = 1 ]; then
  dst=/verif/seeded/${SEED_PREFIX:-}$pid$x; mkdir -p $dst
  cp $src/patch.diff $dst/; cp $src/demo_test.go $dst/ 2>/dev/null
  python3 - "$src/meta.json" "$dst/meta.json" "$v" "$res" "$*" <<'PY'
import json,sys,re
m=json.load(open(sys.argv[1]))
res=sys.argv[4]
caught={}
for line in res.splitlines():
    mm=re.match(r'== (C\d+) rc=(\d+)',line)
    if mm: caught[mm.group(1)]=(mm.group(2)=='1')
kinds=sorted(set(re.findall(r'kind=([^ ]+)',res)))
m['confirmed']={"verify_seed": sys.argv[3], "checks_run_quick_seed1": sys.argv[5].split(), "caught_by": [k for k,v in caught.items() if v], "missed_by": [k for k,v in caught.items() if not v], "violation_kinds": kinds[:8],
 "how": "verify_seed.sh: patch applied to a scratch worktree of /repo HEAD, go build, pinned suite (195 stable tests) re-run, demonstration run without and with the change; mt.sh: checks run against the patched scratch worktree via VERIF_REPO"}
json.dump(m,open(sys.argv[2],'w'),indent=1)
PY
  echo "kept in $dst"
else
  echo "NOT KEPT (verification failed)"
fi
