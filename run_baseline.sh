#!/bin/bash
# Runs the repository's pinned baseline suite (guard OFF) and compares the passing set with BASELINE.json.
set -u
export GOPROXY=off GOSUMDB=off GOTOOLCHAIN=local
unset GOFLAGS GOWORK
out=$(mktemp /tmp/baseline.XXXXXX.json)
for m in $(cat /w/out/gomods.txt); do MF=$(cd /repo/$m && . /w/out/goenv.sh && gomodflag); (cd /repo/$m && go test $MF -json -vet=off -count=1 -timeout 25m ./...); done > "$out" 2>&1
python3 - "$out" <<'PY'
import json,sys
base=json.load(open('/root/.vp/BASELINE.json'))
want=set(base['stable_pass'])
got=set(); failed=set()
for line in open(sys.argv[1]):
    try: e=json.loads(line)
    except Exception: continue
    if e.get('Test') and e.get('Action') in('pass','fail'):
        k=e['Package']+'::'+e['Test']
        (got if e['Action']=='pass' else failed).add(k)
missing=sorted(want-got)
bad=sorted(failed&want)
print(f"baseline: {len(want)} stable passes expected, {len(want&got)} pass, {len(missing)} missing, {len(bad)} of them failing ({len(failed-want)} tests outside the stable set fail, as they do at the pinned commit: LFS pointer files)")
for m in missing[:20]: print("  MISSING", m)
for m in bad[:20]: print("  FAILED", m)
sys.exit(1 if missing or bad else 0)
PY
rc=$?
rm -f "$out"
git -C /repo checkout -- go/go.work.sum 2>/dev/null
exit $rc
